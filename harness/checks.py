"""The registered checks, one function per property (tier -> exit code)."""
from __future__ import annotations

import glob
import json
import os

from . import conv, engine, pipeline, tlc, vocab
from .engine import Report
from .tlc import SPEC, VERIF

REPO = os.environ.get('PANE_VERIF_REPO', '/repo')

REGISTRY: dict = {}
UNION_CFGS = {'quick': 'MC_Grammar_union_q.cfg', 'thorough': 'MC_Grammar_union_t.cfg'}
TAGGED_CFGS = {'quick': 'MC_Grammar_tagged_q.cfg', 'thorough': 'MC_Grammar_tagged_t.cfg'}
EXC_CFGS = {'quick': 'MC_Grammar_exc_q.cfg', 'thorough': 'MC_Grammar_exc_t.cfg'}
COND_CFGS = {'quick': 'MC_Grammar_cond_q.cfg', 'thorough': 'MC_Grammar_cond_t.cfg'}
SHIPPED_CFGS = {'quick': 'MC_Grammar_shipped_q.cfg', 'thorough': 'MC_Grammar_shipped_t.cfg'}   # pane.types helpers
SHIPPED0_CFGS = {'quick': 'MC_Grammar_shipped_q0.cfg', 'thorough': 'MC_Grammar_shipped_t.cfg'}  # (quick: the leaves without contexts)


def check(pid):
    def deco(f):
        REGISTRY[pid] = f
        return f
    return deco


def setup() -> int:
    """MANIFEST.setup_cmd: every module must pass SANY (no network, no installs)."""
    mods = sorted(os.path.basename(p)[:-4] for p in glob.glob(os.path.join(SPEC, '*.tla')))
    for m in mods:
        tlc.sany(m)
    print(f'setup ok: {len(mods)} TLA+ modules parsed by SANY')
    return 0


def replay(prop: str, path: str) -> int:
    """Re-run exactly one recorded witness against the real code and TLC."""
    with open(path) as f:
        r = json.load(f)
    w = r['witness']
    rep = Report(prop, 'quick')
    owned = {r['signature']['clause']}
    st = pipeline.run_events(rep, [(w['abstract_type'], w['abstract_value'], w.get('spelling', 0))], owned,
                             label='replay', make_event=_EVENT_MAKERS.get(w['event']['op'], conv.ev_from_data))
    print(json.dumps(st))
    for sig, wit in rep.violations:
        print('still rejected by the specification:', json.dumps(sig))
    for fid, c in rep.known_seen.items():
        print('known finding:', fid, c['what'])
    return 1 if rep.violations else 0


_EVENT_MAKERS = {'from_data': conv.ev_from_data}


# ---------------------------------------------------------------------------------------
C01_CLAUSES = {'must-accept', 'must-reject', 'image', 'nondeterministic', 'foreign-exception', 'method-variant-differs'}


CORE_CFGS = {'quick': 'MC_Grammar_core_q.cfg', 'thorough': 'MC_Grammar_core_t.cfg'}


@check('C01')
def c01(tier: str) -> int:
    return _multi_grammar('C01', tier, [
        (CORE_CFGS, C01_CLAUSES, conv.ev_from_data, {'extra_sp': 0 if tier == 'quick' else 1, 'reverse': True}),
        (CLS_CFGS, C01_CLAUSES, conv.ev_from_data, {'extra_sp': 1, 'reverse': True}),
        (SCALAR_CFGS, C01_CLAUSES, conv.ev_from_data, {'extra_sp': 2}),
        (SHIPPED0_CFGS, C01_CLAUSES, conv.ev_from_data, {}),
    ], extra=_both(_random_stage(C01_CLAUSES, conv.ev_from_data, 4000, 150000), _repo_tests_stage(C01_CLAUSES)))


def _grammar_check(pid: str, tier: str, cfgs: dict, owned: set, make_event, *, reverse=False, extra_sp=1,
                   child_event=None, expand=None) -> int:
    """Common shape of the conversion-family checks: exhaustive TLC run of a grammar config with
    its laws, dump, replay of every case into the real code with `make_event`, TLC validation."""
    rep = Report(pid, tier)
    cfg = cfgs[tier]
    res = engine.model_check('MC_Grammar', cfg, dump=True)
    rep.add_mc(res, cfg)
    if res.violated:
        rep.witness({'clause': 'law-of-sem', 'type_kind': ','.join(res.violated), 'value_kind': ''},
                    {'tlc_output_tail': res.out[-3000:]})
        return rep.finish()
    tvs = pipeline.cases_from_states(engine.dump_states(res))
    if expand:
        tvs = expand(tvs)
    rep.exhaustive = True
    st = pipeline.run_events(rep, pipeline.spread_spellings(tvs, extra_sp), owned, label=pid.lower(),
                             make_event=make_event, reverse=reverse, child_event=child_event)
    rep.extra['replay'] = st
    rep.assumptions += ['small-scope: types up to the configured depth over the leaf kinds of the config',
                        'projection functions harness/vocab.py are trusted',
                        'string facts are computed with the standard library']
    return rep.finish()


SCALAR_CFGS = {'quick': 'MC_Grammar_scalar_q.cfg', 'thorough': 'MC_Grammar_scalar_t.cfg'}
CLS_CFGS = {'quick': 'MC_Grammar_cls_q.cfg', 'thorough': 'MC_Grammar_cls_t.cfg'}

C03_CLAUSES = {'passes-disagree', 'internal-runtime-error', 'converterror-without-tree', 'accepted-with-tree', 'pass-raised'}


@check('C03')
def c03(tier: str) -> int:
    return _multi_grammar('C03', tier, [
        (SCALAR_CFGS, C03_CLAUSES, conv.ev_passes, {'extra_sp': 1}),
        (COND_CFGS, C03_CLAUSES, conv.ev_passes, {'quick_sample': 2, 'always': _raising_condition}),
        (EXC_CFGS, C03_CLAUSES, conv.ev_passes, {}),
        (TAGGED_CFGS, C03_CLAUSES, conv.ev_passes, {}),
        (CLS_CFGS, C03_CLAUSES, conv.ev_passes, {}),
        (SHIPPED0_CFGS, C03_CLAUSES, conv.ev_passes, {}),
    ], extra=_random_stage(C03_CLAUSES, conv.ev_passes, 3000, 100000))


@check('C09')
def c09(tier: str) -> int:
    own = {'input-mutated'}
    return _multi_grammar('C09', tier, [
        (SCALAR_CFGS, own, conv.ev_snapshot, {}),
        (CLS_CFGS, own, conv.ev_snapshot, {}),
        (CLS_CFGS, own, conv.ev_snapshot_convert, {}),
        (CLS_CFGS, own, conv.ev_snapshot_construct, {'filter': lambda T, v: T['k'] == 'cls'}),
        (TAGGED_CFGS, own, conv.ev_snapshot, {}),
        (TAGGED_CFGS, own, conv.ev_snapshot_convert, {}),
        (SCALAR_CFGS, own, conv.ev_snapshot_into, {}),
        (CLS_CFGS, own, conv.ev_snapshot_into, {}),
        (SHIPPED0_CFGS, own, conv.ev_snapshot, {}),
        (SHIPPED0_CFGS, own, conv.ev_snapshot_into, {}),
    ], extra=_random_stage(own, conv.ev_snapshot, 5000, 100000))


C05_CLAUSES = {'reparse-shadowed-by-earlier-union-member', 'serialise-failed', 'not-interchange', 'serialised-form', 'reparse-failed', 'reparse-differs',
               'reserialise-failed', 'reserialise-differs', 'method-variant-differs'}


@check('C05')
def c05(tier: str) -> int:
    return _multi_grammar('C05', tier, [
        (SCALAR_CFGS, C05_CLAUSES, conv.ev_roundtrip, {}),
        (CLS_CFGS, C05_CLAUSES, conv.ev_roundtrip, {}),
        (TAGGED_CFGS, C05_CLAUSES, conv.ev_roundtrip, {}),
        (UNION_CFGS, C05_CLAUSES, conv.ev_roundtrip, {}),
        (SHIPPED_CFGS, C05_CLAUSES, conv.ev_roundtrip, {}),
    ], extra=_both(_sem_laws, _random_stage(C05_CLAUSES, conv.ev_roundtrip, 5000, 100000)))


def _sem_laws(rep, stats) -> None:
    """Design level, no code involved (spec/PaneLaws.tla): the required semantics itself round-trips - its canonical
    serialised form SerV satisfies the relational SerOK and reads back to the same image - on every state of the
    grammar graph outside the named design gaps (F16/F40, F19, F21, F28); cross-checks: without naming the gaps TLC
    must find counterexamples, every gap must be reached, and the law must apply somewhere."""
    holds = ['MC_Laws_cls.cfg', 'MC_Laws_union.cfg', 'MC_Laws_tagged.cfg', 'MC_Laws_shipped.cfg']
    if rep.tier == 'thorough':
        # (not the core family at depth 2: TokFor reads the string facts for every token of every state, and TLC opens the
        #  facts file anew each time - 'Too many open files' with 16 workers on 260 k states)
        holds += ['MC_Laws_scalar.cfg', 'MC_Laws_names.cfg']
    out = {}
    for cfg in holds:
        r = engine.model_check('MC_Laws', cfg, dump=False)
        out[cfg] = {'expected': 'holds', 'violated': r.violated, 'distinct_states': r.distinct}
        if r.violated:
            raise tlc.MachineryError(f'{cfg}: the required semantics contradicts itself ({r.violated}); the specification, not pane, '
                                     'is at fault:\n' + r.out[-2500:])
    for cfg, inv in (('MC_Laws_x_strict_union.cfg', 'RoundTripLawStrict'), ('MC_Laws_x_strict_cls.cfg', 'RoundTripLawStrict'),
                     ('MC_Laws_x_shadow.cfg', 'NoShadowGap'), ('MC_Laws_x_tuple.cfg', 'NoTupleGap'), ('MC_Laws_x_range.cfg', 'NoRangeGap'),
                     ('MC_Laws_x_judged_cls.cfg', 'NeverJudged'), ('MC_Laws_x_judged_union.cfg', 'NeverJudged')):
        r = engine.model_check('MC_Laws', cfg, dump=False)
        out[cfg] = {'expected': f'{inv} violated', 'violated': r.violated}
        if inv not in r.violated:
            raise tlc.MachineryError(f'{cfg}: TLC no longer finds the expected counterexample to {inv}: law and universe out of step')
    stats['laws-of-the-required-semantics'] = out


C06_CLAUSES = {'fixpoint-shadowed-by-earlier-union-member', 'native-shadowed-by-earlier-union-member',
               'twice-shadowed-by-earlier-union-member', 'fixpoint-refused', 'fixpoint-differs', 'native-refused', 'native-differs', 'twice-refused', 'twice-differs',
               'method-variant-differs'}


@check('C06')
def c06(tier: str) -> int:
    return _multi_grammar('C06', tier, [
        (SCALAR_CFGS, C06_CLAUSES, conv.ev_fixpoint, {}),
        (CLS_CFGS, C06_CLAUSES, conv.ev_fixpoint, {}),
        (UNION_CFGS, C06_CLAUSES, conv.ev_fixpoint, {}),
        (SHIPPED_CFGS, C06_CLAUSES, conv.ev_fixpoint, {}),
    ], extra=_random_stage(C06_CLAUSES, conv.ev_fixpoint, 3000, 80000))


_EVENT_MAKERS.update({'passes': conv.ev_passes, 'snapshot': conv.ev_snapshot, 'roundtrip': conv.ev_roundtrip,
                      'fixpoint': conv.ev_fixpoint})


@check('C02')
def c02(tier: str) -> int:
    cfgs = {'quick': 'MC_Grammar_matrix_q.cfg', 'thorough': 'MC_Grammar_matrix_t.cfg'}
    return _grammar_check('C02', tier, cfgs, {'must-reject', 'image', 'must-accept'}, conv.ev_from_data, extra_sp=1)


C11_CLAUSES = {'must-accept', 'must-reject', 'image', 'union-serialise-failed', 'union-serialised-by-no-member'}


def _ev_union(ident, c):
    return conv.ev_from_data(ident, c)


@check('C11')
def c11(tier: str) -> int:
    cfgs = {'quick': 'MC_Grammar_union_q.cfg', 'thorough': 'MC_Grammar_union_t.cfg'}
    rep = Report('C11', tier)
    cfg = cfgs[tier]
    res = engine.model_check('MC_Grammar', cfg, dump=True)
    rep.add_mc(res, cfg)
    if res.violated:
        rep.witness({'clause': 'law-of-sem', 'type_kind': ','.join(res.violated), 'value_kind': ''}, {'tlc_output_tail': res.out[-3000:]})
        return rep.finish()
    tvs = pipeline.cases_from_states(engine.dump_states(res))
    rep.exhaustive = True
    st1 = pipeline.run_events(rep, pipeline.spread_spellings(tvs, 1), C11_CLAUSES, label='c11', make_event=conv.ev_from_data, reverse=False)
    utvs = [(T, v, 0) for (T, v) in tvs if T['k'] == 'union']
    st2 = pipeline.run_events(rep, utvs, C11_CLAUSES, label='c11s', make_event=conv.ev_unionser, reverse=False,
                              child_event=conv.ev_from_data)
    # the shipped union in disguise: pane.types.ValueOrList[T] reads as Union[T, List[T]] and must say which one it read
    res2 = engine.model_check('MC_Grammar', SHIPPED_CFGS[tier], dump=True)
    rep.add_mc(res2, SHIPPED_CFGS[tier])
    vols = [(T, v, 0) for (T, v) in pipeline.cases_from_states(engine.dump_states(res2)) if '"vol"' in json.dumps(T)]
    st3 = pipeline.run_events(rep, vols, C11_CLAUSES, label='c11v', make_event=conv.ev_from_data, reverse=False)
    rep.extra['replay'] = {'from_data': st1, 'into_data': st2, 'value_or_list': st3}
    rep.assumptions += ['small-scope: all ordered pairs of the member pool (thorough: nested/wrapped once more)',
                        'projection functions harness/vocab.py are trusted']
    return rep.finish()


@check('C13')
def c13(tier: str) -> int:
    cfgs = {'quick': 'MC_Grammar_cond_q.cfg', 'thorough': 'MC_Grammar_cond_t.cfg'}
    return _grammar_check('C13', tier, cfgs, {'must-accept', 'must-reject', 'image', 'foreign-exception'}, conv.ev_from_data, extra_sp=1)


_EVENT_MAKERS.update({'unionser': conv.ev_unionser, 'build': conv.ev_build})


def _multi_grammar(pid: str, tier: str, plans: list, *, extra=None) -> int:
    """plans: list of (cfgs-by-tier, owned clauses, event maker, options)."""
    rep = Report(pid, tier)
    rep.exhaustive = True
    stats = {}
    cache: dict = {}
    for cfgs, owned, maker, opts in plans:
        cfg = cfgs[tier]
        if cfg not in cache:
            res = engine.model_check('MC_Grammar', cfg, dump=True)
            rep.add_mc(res, cfg)
            if res.violated:
                rep.witness({'clause': 'law-of-sem', 'type_kind': ','.join(res.violated), 'value_kind': ''}, {'tlc_output_tail': res.out[-3000:]})
                return rep.finish()
            cache[cfg] = pipeline.cases_from_states(engine.dump_states(res))
        tvs = cache[cfg]
        flt = opts.get('filter')
        if flt:
            tvs = [tv for tv in tvs if flt(*tv)]
        n = opts.get('quick_sample')
        if n and tier == 'quick':
            # the quick tier of a property that only borrows this universe replays every n-th case of it (rotating with
            # VERIF_SEED) plus the cases the option `always` selects; the thorough tier and the owning property replay all
            alw = opts.get('always') or (lambda T, v: False)
            tvs = [tv for i, tv in enumerate(tvs) if (i + engine.seed()) % n == 0 or alw(*tv)]
        st = pipeline.run_events(rep, pipeline.spread_spellings(tvs, opts.get('extra_sp', 0)), owned,
                                 label=f'{pid.lower()}-{maker.__name__}-{len(stats)}', make_event=maker,
                                 reverse=opts.get('reverse', False), child_event=opts.get('child_event'))
        stats[f'{cfg}:{maker.__name__}'] = st
    if extra:
        extra(rep, stats)
    rep.extra['replay'] = stats
    rep.assumptions += ['small-scope: the universes of the listed configs', 'projection functions harness/vocab.py are trusted']
    return rep.finish()


def _random_stage(owned: set, maker, quick_n: int, thorough_n: int, child_event=None, depth: int = 4, only=None):
    """code-to-spec: seeded random types/values beyond the constants of the exhaustive configs
    (`only`: a predicate on (T, v) selecting the cases of interest out of a four times larger sample)"""
    def extra(rep, stats):
        from . import randgen
        n = quick_n if rep.tier == 'quick' else thorough_n
        if only is None:
            tvs = randgen.cases(1000 + engine.seed(), n, depth)
        else:
            tvs = [c for c in randgen.cases(1000 + engine.seed(), 4 * n, depth) if only(c[0], c[1])][:n]
        stats['random:' + maker.__name__] = pipeline.run_events(rep, tvs, owned, label=f'{rep.prop.lower()}-rand', make_event=maker,
                                                               reverse=False, child_event=child_event)
        stats['random:' + maker.__name__]['seed'] = 1000 + engine.seed()
    return extra


def _repo_tests_stage(owned: set):
    """The repository's own test-suite run under the recording plug-in (harness/recorder.py): every
    from_data / convert call the tests make is validated against the specification."""
    def extra(rep, stats):
        import subprocess
        import sys
        out = os.path.join(tlc.workdir('recorder'), 'events.json')
        env = dict(os.environ, PYTHONPATH=VERIF + os.pathsep + REPO, PANE_VERIF_RECORD=out, PANE_VERIF_TOKPREFIX='r')
        p = subprocess.run(['/venv/bin/python', '-m', 'pytest', '-q', '-p', 'no:cacheprovider', '-p', 'harness.recorder',
                            '--continue-on-collection-errors', 'tests'], cwd=REPO, env=env, capture_output=True, text=True, timeout=900)
        if not os.path.exists(out):
            raise tlc.MachineryError('the recording plug-in wrote nothing:\n' + p.stdout[-1500:] + p.stderr[-500:])
        with open(out) as f:
            rec = json.load(f)
        vocab.merge_tokens(rec['texts'], rec['facts'])
        events = rec['events']
        bad = engine.validate(events, name=rep.prop.lower() + '-repo-tests') if events else {}
        rep.validated += len(events)
        evd = {e['id']: e for e in events}
        for ident, clauses in bad.items():
            e = evd[ident]
            for cl in clauses:
                if cl in owned:
                    rep.witness({'clause': cl, 'type_kind': 'repo-test:' + conv.tkind(e['ty']), 'value_kind': conv.vkind(e['val'], e['ty']),
                                 'outcome': e['out']['k']}, {'event': e, 'source': 'a call made by the repository test-suite'})
        stats['repository-test-suite'] = {**rec['stats'], 'pytest_tail': p.stdout.strip().splitlines()[-1] if p.stdout.strip() else '',
                                          'rejected': len(bad)}
    return extra


def _both(*extras):
    def extra(rep, stats):
        for x in extras:
            x(rep, stats)
    return extra


def _validate_plain(rep, events: list, desc: dict, owned: set, label: str):
    """Events without (T, v) structure (no descent): validate, report each rejected one."""
    bad = engine.validate(events, name=label)
    rep.validated += len(events)
    evs = {e['id']: e for e in events}
    for ident, clauses in bad.items():
        for cl in clauses:
            if cl in owned:
                e = evs[ident]
                rep.witness({'clause': cl, 'type_kind': 'unsupported:' + str(desc.get(ident)), 'value_kind': '',
                             'outcome': e['out']['k'] + (':' + e['out'].get('c', '') if e['out']['k'] == 'exc' else '')},
                            {'event': e, 'what': desc.get(ident)})
    return {'events': len(events), 'rejected': len(bad)}


TAGGED_CFGS = {'quick': 'MC_Grammar_tagged_q.cfg', 'thorough': 'MC_Grammar_tagged_t.cfg'}
EXC_CFGS = {'quick': 'MC_Grammar_exc_q.cfg', 'thorough': 'MC_Grammar_exc_t.cfg'}
COND_CFGS = {'quick': 'MC_Grammar_cond_q.cfg', 'thorough': 'MC_Grammar_cond_t.cfg'}
C12_CLAUSES = {'must-accept', 'must-reject', 'image', 'foreign-exception', 'tag-not-named', 'build-must-fail',
               'build-exception-class'} | C05_CLAUSES


@check('C12')
def c12(tier: str) -> int:
    def extra(rep, stats):
        evs, desc = conv.build_events_unsupported(10 ** 7, only_dup=True)
        stats['duplicate-tags'] = _validate_plain(rep, evs, desc, C12_CLAUSES, 'c12-dup')
    return _multi_grammar('C12', tier, [
        (TAGGED_CFGS, C12_CLAUSES, conv.ev_from_data, {'extra_sp': 0}),
        (TAGGED_CFGS, C12_CLAUSES, conv.ev_tagmsg, {'filter': lambda T, v: T['k'] == 'tagged', 'child_event': conv.ev_from_data}),
        (TAGGED_CFGS, C12_CLAUSES, conv.ev_roundtrip, {}),
    ], extra=extra)


C04_CLAUSES = {'foreign-exception', 'build-fails-documented', 'build-exception-class', 'build-must-fail', 'method-variant-differs'}


def _ev_build_case(ident, c):
    return conv.ev_build(ident, c, True)


@check('C04')
def c04(tier: str) -> int:
    def extra(rep, stats):
        evs, desc = conv.build_events_unsupported(10 ** 7)
        stats['unsupported-catalogue'] = _validate_plain(rep, evs, desc, C04_CLAUSES, 'c04-unsup')
    return _multi_grammar('C04', tier, [
        (EXC_CFGS, C04_CLAUSES, conv.ev_from_data, {'extra_sp': 0}),
        (EXC_CFGS, C04_CLAUSES, _ev_build_case, {'filter': _first_of_type()}),
        (SCALAR_CFGS, C04_CLAUSES, conv.ev_from_data, {}),
        (TAGGED_CFGS, C04_CLAUSES, conv.ev_from_data, {}),
        (COND_CFGS, C04_CLAUSES, conv.ev_from_data, {'quick_sample': 3, 'always': _raising_condition}),
        (SHIPPED0_CFGS, C04_CLAUSES, conv.ev_from_data, {}),
        (EXC_CFGS, C04_CLAUSES, conv.ev_from_json, {}),
        # the build phase against the implementation-shaped model of make_converter (PaneDispatch): a difference is model
        # drift, counted in the evidence (events_with_clauses_not_owned_here), never an alarm
        (SCALAR_CFGS, set(), conv.ev_dispatch, {'filter': _first_of_type()}),
        (EXC_CFGS, set(), conv.ev_dispatch, {'filter': _first_of_type()}),
        (TAGGED_CFGS, set(), conv.ev_dispatch, {'filter': _first_of_type()}),
        (SHIPPED0_CFGS, set(), conv.ev_dispatch, {'filter': _first_of_type()}),
        (SHIPPED0_CFGS, C04_CLAUSES, conv.ev_from_json, {}),
    ], extra=extra)


def _raising_condition(T, v) -> bool:
    """a condition whose predicate can raise for some value (user predicates, or a numeric one on a non-number)"""
    js = json.dumps(T)
    return '"uraise"' in js or '"even"' in js or v['k'] not in ('int', 'float', 'bool')


def _first_of_type():
    seen = set()

    def f(T, v):
        k = vocab.canon(T)
        if k in seen:
            return False
        seen.add(k)
        return True
    return f


_EVENT_MAKERS.update({'tagmsg': conv.ev_tagmsg})


C07_CLAUSES = {'node-kind', 'children-keys', 'missing-fields', 'extra-fields', 'product-actual', 'sum-arity', 'leaf-actual',
               'duplicate-node', 'length-bounds', 'child-not-standalone', 'tree-depends-on-history'}


@check('C07')
def c07(tier: str) -> int:
    conv._FRESH_EVERY[0] = 4 if tier == 'quick' else 2      # how often the tree is asked for again under a never-used handler set
    return _multi_grammar('C07', tier, [
        (SCALAR_CFGS, C07_CLAUSES, conv.ev_tree, {'extra_sp': 0 if tier == 'quick' else 1}),
        (CLS_CFGS, C07_CLAUSES, conv.ev_tree, {}),
        (TAGGED_CFGS, C07_CLAUSES, conv.ev_tree, {}),
        (UNION_CFGS, C07_CLAUSES, conv.ev_tree, {}),
        (COND_CFGS, C07_CLAUSES, conv.ev_tree, {}),
    ], extra=_random_stage(C07_CLAUSES, conv.ev_tree, 3000, 100000))


C08_CLAUSES = {'render-raised', 'render-unstable', 'render-incomplete'}


@check('C08')
def c08(tier: str) -> int:
    return _multi_grammar('C08', tier, [
        (SCALAR_CFGS, C08_CLAUSES, conv.ev_render, {}),
        (CLS_CFGS, C08_CLAUSES, conv.ev_render, {}),
        (TAGGED_CFGS, C08_CLAUSES, conv.ev_render, {}),
        (UNION_CFGS, C08_CLAUSES, conv.ev_render, {}),
        (EXC_CFGS, C08_CLAUSES, conv.ev_render, {}),
    ], extra=_random_stage(C08_CLAUSES, conv.ev_render, 2500, 60000))


_EVENT_MAKERS.update({'tree': conv.ev_tree, 'render': conv.ev_render})


@check('C20')
def c20(tier: str) -> int:
    from . import rename
    rep = Report('C20', tier)
    rename.run(rep, tier)
    rep.assumptions += ['identifiers over a-z / A-Z / _ / -; exhaustive part bounded by the constants of the MC config',
                        'class-level binding sampled (every k-th enumerated name)']
    return rep.finish()


C10_CLAUSES = {'must-accept', 'must-reject', 'image', 'foreign-exception'}


@check('C10')
def c10(tier: str) -> int:
    from . import cache
    rep = Report('C10', tier)
    res = engine.model_check('MC_Cache', 'MC_Cache_pinned.cfg', facts=False)
    rep.add_mc(res, 'MC_Cache_pinned.cfg (design with key arguments kept alive)')
    if res.violated:
        rep.witness({'clause': 'design-invariant', 'type_kind': ','.join(res.violated), 'value_kind': ''}, {'tlc_output_tail': res.out[-3000:]})
        return rep.finish()
    res2 = engine.model_check('MC_Cache', 'MC_Cache_found.cfg', facts=False)
    rep.extra['model_of_unpinned_design'] = {
        'violates': res2.violated, 'distinct_states': res2.distinct,
        'note': 'cross-check: with PinKeyArgs = FALSE (key = id(type), nothing keeps the type alive) TLC must find the '
                'Alloc; lookup; Drop; Alloc; lookup counterexample to Transparent'}
    if 'Transparent' not in res2.violated:
        raise tlc.MachineryError('the cache model no longer predicts the id-reuse defect: model and property out of step')
    # the registry of global handlers: a cache that ignores registrations, and one that is emptied by them, are both
    # refuted by TLC (the second by a build in flight that stores afterwards); the design checked above keys on it
    for cfg, what in (('MC_Cache_regfound.cfg', 'registrations ignored by the cache (the code as found)'),
                      ('MC_Cache_regclear.cfg', 'cache emptied at every registration')):
        r3 = engine.model_check('MC_Cache', cfg, facts=False)
        rep.extra.setdefault('models_of_other_registry_designs', {})[cfg] = {'design': what, 'violates': r3.violated, 'distinct_states': r3.distinct}
        if 'Transparent' not in r3.violated:
            raise tlc.MachineryError(f'{cfg}: the cache model no longer refutes this design: model and property out of step')
    n = 150 if tier == 'quick' else 3000
    stats = {'allocs': 0, 'drops': 0, 'lookups': 0, 'drift': 0, 'id_reused_for_other_type': 0}
    behaviours = cache.simulate('MC_Cache_sim.cfg', n, 40, 1 + engine.seed())
    events, desc = cache.replay(behaviours, stats)
    ev2, desc2, st2 = cache.sequential_histories(engine.seed(), 60 if tier == 'quick' else 1500, 40)
    events += ev2
    desc.update(desc2)
    bad = engine.validate(events, name='c10')
    rep.validated += len(events)
    evs = {e['id']: e for e in events}
    for ident, clauses in bad.items():
        d = desc[ident]
        e = evs[ident]
        for cl in clauses:
            if cl in C10_CLAUSES:
                rep.witness({'clause': 'history-dependent:' + cl, 'type_kind': d['type'] + '/' + d['handlers'], 'value_kind': str(d['probe']),
                             'outcome': e['out']['k']},
                            {'history': d['history'][-25:], 'behaviour': d['behaviour'], 'event': e})
    rep.samples += [{'history': desc[i]['history'][-8:], 'probe': desc[i]['probe'], 'outcome': evs[i]['out']['k']}
                    for i in list(evs)[:: max(1, len(evs) // 5)]][:5]
    rep.extra['replay'] = {'behaviours_from_tlc_simulation': len(behaviours), 'threaded': stats, 'sequential': st2,
                           'events': len(events), 'rejected': len(bad)}
    _c10_lru(rep, tier)
    _c10_apalache(rep)
    rep.assumptions += ['CPython address reuse cannot be forced: the replay records real ids (id_reused_for_other_type says how '
                        'often an address came back for another type)',
                        'thread schedules are enforced at the four modelled steps; finer interleavings are excluded by the GIL',
                        'one registered global handler (registered at most once per behaviour; taken back between behaviours through the '
                        'module-level list, there being no public way)']
    return rep.finish()


def _c10_apalache(rep) -> None:
    """Unbounded histories: the inductive invariant of the repaired cache design (spec/ApaCache.tla)."""
    import shutil
    import subprocess
    import time
    if shutil.which('apalache-mc') is None:
        rep.extra['inductive_invariant'] = 'apalache-mc not available: claim stays at bounded model checking'
        return
    out = tlc.workdir('apalache')
    runs = {}
    for name, args in (('base (CInit => IndInv)', ['--init=CInit', '--length=0']),
                       ('step (IndInv /\\ CNext => IndInv\')', ['--init=IndInv', '--length=1'])):
        t0 = time.time()
        try:
            p = subprocess.run(['apalache-mc', 'check', *args, '--next=CNext', '--inv=IndInv', f'--out-dir={out}',
                                os.path.join(SPEC, 'ApaCache.tla')], cwd=out, capture_output=True, text=True, timeout=600)
            ok = 'EXITCODE: OK' in p.stdout
            runs[name] = {'discharged': ok, 'wall_s': round(time.time() - t0, 1)}
            if not ok:
                if 'The outcome is: Error' in p.stdout:
                    rep.witness({'clause': 'inductive-invariant', 'type_kind': name, 'value_kind': ''}, {'apalache_tail': p.stdout[-1500:]})
                else:
                    runs[name]['note'] = 'apalache did not finish: ' + p.stdout[-300:]
        except subprocess.TimeoutExpired:
            runs[name] = {'discharged': False, 'note': 'timeout'}
    rep.extra['inductive_invariant'] = {'spec': 'spec/ApaCache.tla (3 addresses, 3 type descriptors, 2 handler sets, 2 threads, up to 2 registrations of global handlers; unbounded histories)',
                                        'obligations': runs}


def _c10_lru(rep, tier: str) -> None:
    from . import cache
    ident = 2 * 10 ** 6
    total = {}
    for m in (0, 1, 2, 3):
        res = engine.model_check('MC_LRU', f'MC_LRU_{m}.cfg', facts=False, name=f'lru{m}')
        rep.add_mc(res, f'MC_LRU_{m}.cfg')
        if res.violated:
            rep.witness({'clause': 'design-invariant', 'type_kind': f'lru maxsize={m}: ' + ','.join(res.violated), 'value_kind': ''},
                        {'tlc_output_tail': res.out[-3000:]})
            continue
        beh = cache.simulate_lru(m, 60 if tier == 'quick' else 1500, 30, 11 + engine.seed())
        events, desc, ident = cache.replay_lru(m, beh, ident)
        bad = engine.validate(events, module='PaneLRUTrace', cfg=f'PaneLRUTrace_{m}.cfg', name=f'c10-lru{m}', chunks=1)
        rep.validated += len(events)
        total[f'maxsize={m}'] = {'behaviours': len(beh), 'events': len(events), 'rejected': len(bad)}
        evs = {e['id']: e for e in events}
        for i, clauses in bad.items():
            for cl in clauses:
                rep.witness({'clause': 'lru:' + cl, 'type_kind': f'KeyCache(maxsize={m})', 'value_kind': evs[i]['a'], 'outcome': evs[i].get('raised', '')},
                            {'history': desc[i]['history'][-20:], 'event': evs[i]})
    rep.extra['lru_replay'] = total


C14_CLAUSES = {'signature-binding', 'argument-not-converted-as-from-data', 'hook-failure-not-raised', 'post-init-run-count',
               'construction-refused', 'set-field-record', 'constructed-value', 'factory-stored-uncalled',
               'default-shared-between-instances', 'unchecked-not-verbatim', 'set-only-dict', 'must-accept', 'must-reject', 'image',
               'foreign-exception'}
CONSTRUCT_CFGS = {'quick': 'MC_Grammar_construct_q.cfg', 'thorough': 'MC_Grammar_construct_t.cfg'}


@check('C14')
def c14(tier: str) -> int:
    rep = Report('C14', tier)
    rep.exhaustive = True
    res = engine.model_check('MC_Grammar', CONSTRUCT_CFGS[tier], dump=True)
    rep.add_mc(res, CONSTRUCT_CFGS[tier])
    states = engine.dump_states(res)
    cons = [(st['ty'], st['val'], 0) for st in states if st.get('ph') == 'ctor']
    cases = [(st['ty'], st['val'], 0) for st in states if st.get('ph') == 'case' and st['ty']['k'] == 'cls']
    st1 = pipeline.run_events(rep, cons, C14_CLAUSES, label='c14-ctor', make_event=conv.ev_construct, reverse=False)
    st2 = pipeline.run_events(rep, cases, C14_CLAUSES, label='c14-data', make_event=conv.ev_created, reverse=False,
                              child_event=conv.ev_from_data)
    rep.extra['replay'] = {'constructions': st1, 'data_paths': st2}
    rep.assumptions += ['classes of the generated family (one per feature of the default / layout / naming rules)',
                        'object identity of default products observed with `is` / id() on objects kept alive for the run']
    return rep.finish()


_EVENT_MAKERS.update({'construct': conv.ev_construct, 'created': conv.ev_created})


NAMES_CFGS = {'quick': 'MC_Grammar_names_q.cfg', 'thorough': 'MC_Grammar_names_t.cfg'}
C15_CLAUSES = ({'must-accept', 'must-reject', 'image', 'foreign-exception', 'serialised-form', 'not-interchange', 'serialise-failed',
                'reparse-failed', 'reparse-differs', 'children-keys', 'missing-fields', 'extra-fields', 'duplicate-node',
                'length-bounds', 'node-kind', 'build-fails-documented', 'method-variant-differs',
                'reparse-shadowed-by-earlier-union-member'})


def _accepted_only(T, v):
    # round trips only matter for values that can convert: mappings and sequences
    return v['k'] in ('map', 'seq')


def _every(n):
    c = [0]

    def f(T, v):
        c[0] += 1
        return c[0] % n == 0
    return f


@check('C15')
def c15(tier: str) -> int:
    return _multi_grammar('C15', tier, [
        (NAMES_CFGS, C15_CLAUSES, conv.ev_from_data, {}),
        (NAMES_CFGS, C15_CLAUSES | {'nondeterministic'}, conv.ev_from_data_custom, {'filter': _accepted_only}),
        (NAMES_CFGS, C15_CLAUSES, conv.ev_roundtrip, {'filter': _accepted_only}),
        (NAMES_CFGS, C15_CLAUSES, conv.ev_tree, {'filter': _every(3)}),
        (CLS_CFGS, C15_CLAUSES, conv.ev_from_data, {}),
        (CLS_CFGS, C15_CLAUSES, conv.ev_roundtrip, {}),
        (CLS_CFGS, C15_CLAUSES, conv.ev_tree, {}),
    ], extra=_both(_random_stage(C15_CLAUSES, conv.ev_from_data, 2500, 60000, only=_has_class),
                   _random_stage(C15_CLAUSES, conv.ev_roundtrip, 1500, 40000, only=_has_class)))


def _has_class(T, v) -> bool:
    return '"cls"' in json.dumps(T)


@check('C16')
def c16(tier: str) -> int:
    from . import value
    rep = Report('C16', tier)
    value.run(rep, tier)
    rep.assumptions += ['two-field classes over integer field values 0..2; hash flag patterns as listed in MC_Value.tla',
                        'generic classes subscripted with int / Any / not at all']
    return rep.finish()


@check('C17')
def c17(tier: str) -> int:
    from . import program
    rep = Report('C17', tier)
    program.run(rep, tier)
    rep.assumptions += ['programs of depth <= 2 (quick) / 3 (thorough) from the production rules of MC_Program.tla; single inheritance',
                        'generic bases are always subscripted by their subclasses']
    return rep.finish()


@check('C18')
def c18(tier: str) -> int:
    from . import handlers
    rep = Report('C18', tier)
    handlers.run(rep, tier)
    rep.assumptions += ['the registered global handler is registered once per process and switched by the driver; the converter '
                        'cache is cleared between configurations (the registry is configuration, not history)',
                        'marker converters make the converter in use observable in the result']
    return rep.finish()


IO_CFGS = {'quick': 'MC_Grammar_io_q.cfg', 'thorough': 'MC_Grammar_io_t.cfg'}


@check('C19')
def c19(tier: str) -> int:
    from . import iocheck
    rep = Report('C19', tier)
    res = engine.model_check('MC_Grammar', IO_CFGS[tier], dump=True)
    rep.add_mc(res, IO_CFGS[tier])
    cases = pipeline.cases_from_states(engine.dump_states(res))
    cases = [(T, v) for (T, v) in cases if v['k'] in ('map', 'seq', 'str', 'int', 'float', 'bool', 'none')]
    rep.exhaustive = True
    iocheck.run(rep, tier, cases)
    rep.assumptions += ['the json and yaml libraries are trusted components (exercised, not modelled)',
                        'handles opened by the library are observed by shadowing the name `open` in the pane.io module from the harness']
    return rep.finish()
