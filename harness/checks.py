"""The registered checks, one function per property (tier -> exit code)."""
from __future__ import annotations

import glob
import json
import os

from . import conv, engine, pipeline, tlc, vocab
from .engine import Report
from .tlc import SPEC, VERIF

REGISTRY: dict = {}


def check(pid):
    def deco(f):
        REGISTRY[pid] = f
        return f
    return deco


def setup() -> int:
    """MANIFEST.setup_cmd: every module must pass SANY (no network, no installs)."""
    mods = sorted(os.path.basename(p)[:-4] for p in glob.glob(os.path.join(SPEC, '*.tla')))
    for m in mods:
        tlc.sany(m)
    print(f'setup ok: {len(mods)} TLA+ modules parsed by SANY')
    return 0


def replay(prop: str, path: str) -> int:
    """Re-run exactly one recorded witness against the real code and TLC."""
    with open(path) as f:
        r = json.load(f)
    w = r['witness']
    rep = Report(prop, 'quick')
    owned = {r['signature']['clause']}
    st = pipeline.run_events(rep, [(w['abstract_type'], w['abstract_value'], w.get('spelling', 0))], owned,
                             label='replay', make_event=_EVENT_MAKERS.get(w['event']['op'], conv.ev_from_data))
    print(json.dumps(st))
    for sig, wit in rep.violations:
        print('still rejected by the specification:', json.dumps(sig))
    for fid, c in rep.known_seen.items():
        print('known finding:', fid, c['what'])
    return 1 if rep.violations else 0


_EVENT_MAKERS = {'from_data': conv.ev_from_data}


# ---------------------------------------------------------------------------------------
C01_CLAUSES = {'must-accept', 'must-reject', 'image', 'nondeterministic', 'foreign-exception'}


@check('C01')
def c01(tier: str) -> int:
    rep = Report('C01', tier)
    cfg = 'MC_Grammar_core_q.cfg' if tier == 'quick' else 'MC_Grammar_core_t.cfg'
    res = engine.model_check('MC_Grammar', cfg, dump=True)
    rep.add_mc(res, cfg)
    if res.violated:
        rep.witness({'clause': 'law-of-sem', 'type_kind': ','.join(res.violated), 'value_kind': ''},
                    {'tlc_output_tail': res.out[-3000:]})
        return rep.finish()
    states = engine.dump_states(res)
    tvs = pipeline.cases_from_states(states)
    rep.exhaustive = True
    st = pipeline.run_events(rep, pipeline.spread_spellings(tvs, 1), C01_CLAUSES, label='c01')
    rep.extra['replay'] = st
    rep.assumptions += ['small-scope: types up to the configured depth over the leaf kinds of the config',
                        'projection functions harness/vocab.py are trusted',
                        'string facts are computed with the standard library']
    return rep.finish()


def _grammar_check(pid: str, tier: str, cfgs: dict, owned: set, make_event, *, reverse=False, extra_sp=1,
                   child_event=None, expand=None) -> int:
    """Common shape of the conversion-family checks: exhaustive TLC run of a grammar config with
    its laws, dump, replay of every case into the real code with `make_event`, TLC validation."""
    rep = Report(pid, tier)
    cfg = cfgs[tier]
    res = engine.model_check('MC_Grammar', cfg, dump=True)
    rep.add_mc(res, cfg)
    if res.violated:
        rep.witness({'clause': 'law-of-sem', 'type_kind': ','.join(res.violated), 'value_kind': ''},
                    {'tlc_output_tail': res.out[-3000:]})
        return rep.finish()
    tvs = pipeline.cases_from_states(engine.dump_states(res))
    if expand:
        tvs = expand(tvs)
    rep.exhaustive = True
    st = pipeline.run_events(rep, pipeline.spread_spellings(tvs, extra_sp), owned, label=pid.lower(),
                             make_event=make_event, reverse=reverse, child_event=child_event)
    rep.extra['replay'] = st
    rep.assumptions += ['small-scope: types up to the configured depth over the leaf kinds of the config',
                        'projection functions harness/vocab.py are trusted',
                        'string facts are computed with the standard library']
    return rep.finish()


SCALAR_CFGS = {'quick': 'MC_Grammar_scalar_q.cfg', 'thorough': 'MC_Grammar_scalar_t.cfg'}

C03_CLAUSES = {'passes-disagree', 'internal-runtime-error', 'converterror-without-tree', 'accepted-with-tree', 'pass-raised'}


@check('C03')
def c03(tier: str) -> int:
    return _grammar_check('C03', tier, SCALAR_CFGS, C03_CLAUSES, conv.ev_passes)


@check('C09')
def c09(tier: str) -> int:
    return _grammar_check('C09', tier, SCALAR_CFGS, {'input-mutated'}, conv.ev_snapshot, extra_sp=0)


C05_CLAUSES = {'serialise-failed', 'not-interchange', 'serialised-form', 'reparse-failed', 'reparse-differs',
               'reserialise-failed', 'reserialise-differs'}


@check('C05')
def c05(tier: str) -> int:
    return _grammar_check('C05', tier, SCALAR_CFGS, C05_CLAUSES, conv.ev_roundtrip, extra_sp=0)


C06_CLAUSES = {'fixpoint-refused', 'fixpoint-differs', 'native-refused', 'native-differs', 'twice-refused', 'twice-differs'}


@check('C06')
def c06(tier: str) -> int:
    return _grammar_check('C06', tier, SCALAR_CFGS, C06_CLAUSES, conv.ev_fixpoint, extra_sp=0)


_EVENT_MAKERS.update({'passes': conv.ev_passes, 'snapshot': conv.ev_snapshot, 'roundtrip': conv.ev_roundtrip,
                      'fixpoint': conv.ev_fixpoint})
