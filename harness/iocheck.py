"""C19 driver. Part A: behaviours of the ownership model (spec/PaneIO.tla, TLC simulation) are
executed on real files and streams in a scratch directory; `open` inside pane.io is shadowed so that
every handle the library opens is seen (encoding, closed afterwards). Part B: typed values from the
grammar universe are written and read back through every sink kind and formatting option set."""
from __future__ import annotations

import builtins
import glob
import io as _io
import os
import pathlib
import re
import shutil
import subprocess
import typing as t

import pane
import pane.io as pio

from . import engine, tlc, vocab
from .conv import Case, _call, _proj
from .tlc import JAR, SPEC, MachineryError
from .vocab import OutOfVocab, abstract


class OpenLog:
    def __init__(self):
        self.handles = []

    def __call__(self, file, mode='r', *a, **kw):
        f = builtins.open(file, mode, *a, **kw)
        self.handles.append((f, kw.get('encoding')))
        return f

    def take(self):
        h, self.handles = self.handles, []
        return [[(enc or 'default').lower(), 'T' if f.closed else 'F'] for f, enc in h]


_log = OpenLog()


def install():
    pio.open = _log          # module-level name looked up by pane.io.open_file: no change to the repository


def uninstall():
    try:
        del pio.open
    except AttributeError:
        pass


_ACT = re.compile(r'<(Write|Read|ReadAll)\(([^)]*)\)')


def simulate(num: int, depth: int, seed: int) -> list:
    wd = tlc.workdir('c19-sim')
    for old in glob.glob(os.path.join(wd, 'tr_*')):
        os.remove(old)
    cmd = ['java', '-XX:+UseParallelGC', '-Xmx2g', '-cp', JAR, 'tlc2.TLC', '-simulate', f'file={wd}/tr,num={num}',
           '-depth', str(depth), '-workers', '1', '-seed', str(seed), '-metadir', os.path.join(wd, 'meta'),
           '-noGenerateSpecTE', '-deadlock', '-config', os.path.join(SPEC, 'MC_IO_sim.cfg'), os.path.join(SPEC, 'MC_IO.tla')]
    p = subprocess.run(cmd, cwd=SPEC, stdout=subprocess.PIPE, stderr=subprocess.STDOUT, text=True, timeout=900)
    files = sorted(glob.glob(os.path.join(wd, 'tr_*')))
    if not files:
        raise MachineryError('TLC simulation of PaneIO produced no behaviours:\n' + p.stdout[-2000:])
    out = []
    for f in files:
        with open(f) as fh:
            acts = [(m.group(1), [x.strip().strip('"') for x in m.group(2).split(',')]) for m in _ACT.finditer(fh.read())]
        out.append(acts)
    return out


def catalogue():
    class Doc(pane.PaneBase):
        title: str
        tags: t.List[str] = pane.field(default_factory=list)
        ratio: float = 1.5
        note: t.Optional[str] = None
    vocab.KEEPALIVE.append(Doc)
    v1 = Doc(title='héllo wörld ✓ \U0001f600', tags=['yes', 'null', '~', ': #', ''], ratio=2.5, note='line1\nline2\n')
    v2 = Doc(title='  padded  ', tags=['1e3', '2020-01-02'], ratio=-0.5)
    return Doc, {1: v1, 2: v2}


def catalogue2():
    # documents that are null / falsy: one converted value per document must still come back
    return t.Optional[int], {1: None, 2: 0}


def replay_steps(behaviours: list, scratch: str, start_id: int, which: int = 1) -> tuple:
    T, vals = catalogue() if which == 1 else catalogue2()
    events = [{'id': start_id + 1, 'op': 'iovals', 'vals': [abstract(vals[1]), abstract(vals[2])]}]
    desc = {start_id + 1: 'value catalogue'}
    ident = start_id + 1
    for bi, acts in enumerate(behaviours):
        ident += 1
        events.append({'id': ident, 'op': 'ioreset'})
        desc[ident] = f'behaviour {bi}'
        d = os.path.join(scratch, f'b{bi}')
        os.makedirs(d, exist_ok=True)
        stores = {'path': pathlib.Path(d) / 'p.txt', 'strpath': os.path.join(d, 's.txt'),
                  'stringio': _io.StringIO(), 'textfile': builtins.open(os.path.join(d, 't.txt'), 'w+', encoding='utf-8')}
        hist = []
        for name, args in acts:
            s = args[0]
            sink = stores[s]
            caller = s in ('stringio', 'textfile')
            raised, got = '', []
            _log.take()
            try:
                if name == 'Write':
                    f, v = args[1], int(args[2])
                    (pio.write_json if f == 'json' else pio.write_yaml)(vals[v], sink, ty=T)
                else:
                    f = 'json' if _fmt(hist, s) == 'json' else 'yaml'
                    if caller:
                        sink.seek(0)            # the caller rewinds its own stream
                    if name == 'Read':
                        got = [abstract((pio.from_json if f == 'json' else pio.from_yaml)(sink, T))]
                    else:
                        got = [abstract(x) for x in pio.from_yaml_all(sink, T)]
                    if caller and not sink.closed:
                        sink.seek(0, 2)         # and puts it back at the end
            except OutOfVocab:
                raised = 'unprojectable'
            except Exception as e:  # noqa
                raised = type(e).__name__
            libs = _log.take()
            hist.append((name, args))
            ident += 1
            events.append({'id': ident, 'op': 'iostep', 'a': name, 's': s, 'f': args[1] if name == 'Write' else _fmt(hist, s),
                           'v': int(args[2]) if name == 'Write' else 0, 'raised': raised, 'got': got, 'libs': libs,
                           'nlibs': len(libs), 'want_nlibs': 0 if caller else 1,
                           'caller_closed': 'T' if (caller and sink.closed) else 'F'})
            desc[ident] = f'behaviour {bi}: ' + ' ; '.join(f'{n}({",".join(a)})' for n, a in hist[-6:])
        try:
            stores['textfile'].close()
        except Exception:  # noqa
            pass
    return events, desc, ident


def _fmt(hist, s):
    for name, args in reversed(hist):
        if name == 'Write' and args[0] == s:
            return args[1]
    return 'yaml'


# ---------------------------------------------------------------------------------------
def _opts_kwargs(fmt: str, o: dict) -> dict:
    if fmt == 'json':
        return {'indent': {'none': None, '2': 2, 'tab': '\t'}[o['indent']], 'sort_keys': o['sort_keys'] == 'T'}
    return {'indent': None if o['indent'] == 'none' else 4, 'width': None if o['width'] == 'none' else 20,
            'allow_unicode': o['allow_unicode'] == 'T', 'explicit_start': o['explicit_start'] == 'T',
            'explicit_end': o['explicit_end'] == 'T',
            'default_style': {'none': None, 'dq': '"', 'lit': '|', 'fold': '>'}[o['default_style']],
            'default_flow_style': {'none': None, 'T': True, 'F': False}[o['default_flow_style']],
            'sort_keys': o['sort_keys'] == 'T'}


SINKS = ['path', 'strpath', 'stringio', 'textfile', 'returned', 'textfile_latin1']


def ev_round(ident: int, c: Case, fmt: str, sink: str, o: dict, scratch: str) -> dict:
    e = {'id': ident, 'op': 'ioround', 'ty': c.T, 'val': c.v, 'fmt': fmt, 'sink': sink, 'opts': o,
         'libs': [], 'nlibs': 0, 'want_nlibs': 0, 'caller_closed': 'F', 'wrote': 'skip', 'got': {'k': 'skip'}, 'd': {'k': 'skip'}}
    try:
        x = pane.from_data(c.val, c.ty)
        e['x'] = abstract(x)
        e['have'] = 'T'
    except Exception:  # noqa
        e.update(x={'k': 'none'}, have='F')
        return e
    if sink == 'returned' and not isinstance(x, pane.PaneBase):
        sink = 'stringio'
        e['sink'] = sink
    e['d'] = _call(pane.into_data, x, c.ty)[0]
    kw = _opts_kwargs(fmt, o)
    write = pio.write_json if fmt == 'json' else pio.write_yaml
    read = pio.from_json if fmt == 'json' else pio.from_yaml
    p = os.path.join(scratch, f'r{ident}.txt')
    _log.take()
    caller_stream = None
    try:
        if sink in ('path', 'strpath'):
            target = pathlib.Path(p) if sink == 'path' else p
            e['want_nlibs'] = 2
            write(x, target, ty=c.ty, **kw)
            e['wrote'] = 'ok'
            e['got'] = _read(read, target, c.ty)
            if fmt == 'yaml':
                e['want_nlibs'] = 3          # (one more file opened and closed by the library)
                try:
                    e['gall'] = {'k': 'ok', 'xs': [abstract(y) for y in pio.from_yaml_all(target, c.ty)]}
                except pane.ConvertError:
                    e['gall'] = {'k': 'reject'}
                except OutOfVocab:
                    e.pop('gall', None)
                except Exception as ex:  # noqa
                    e['gall'] = {'k': 'exc', 'c': type(ex).__name__}
        elif sink == 'returned':
            s = (x.write_json if fmt == 'json' else x.write_yaml)(**kw)
            e['wrote'] = 'ok' if isinstance(s, str) else 'not-a-string'
            meth = type(x).from_jsons if fmt == 'json' else type(x).from_yamls
            try:
                e['got'] = _proj(meth(s))
            except pane.ConvertError:
                e['got'] = {'k': 'reject'}
            except Exception as ex:  # noqa
                e['got'] = {'k': 'exc', 'c': type(ex).__name__}
        else:
            caller_stream = _io.StringIO() if sink == 'stringio' else \
                builtins.open(p, 'w+', encoding='utf-8' if sink == 'textfile' else 'latin-1')
            write(x, caller_stream, ty=c.ty, **kw)
            e['wrote'] = 'ok'
            if not caller_stream.closed:
                caller_stream.seek(0)
                e['got'] = _read(read, caller_stream, c.ty)
    except Exception as ex:  # noqa
        if e['wrote'] == 'skip':
            e['wrote'] = 'exc:' + type(ex).__name__
        else:
            e['got'] = {'k': 'exc', 'c': type(ex).__name__}
    libs = _log.take()
    e['libs'], e['nlibs'] = libs, len(libs)
    if caller_stream is not None:
        e['caller_closed'] = 'T' if caller_stream.closed else 'F'
        try:
            caller_stream.close()
        except Exception:  # noqa
            pass
    try:
        os.remove(p)
    except OSError:
        pass
    return e


def _read(read, src, ty):
    try:
        return _proj(read(src, ty))
    except pane.ConvertError:
        return {'k': 'reject'}
    except Exception as ex:  # noqa
        return {'k': 'exc', 'c': type(ex).__name__}


def run(rep, tier: str, grammar_cases: list) -> None:
    scratch = tlc.workdir('c19-files')
    install()
    try:
        res = engine.model_check('MC_IO', 'MC_IO.cfg', facts=False)
        rep.add_mc(res, 'MC_IO.cfg')
        if res.violated:
            rep.witness({'clause': 'design-invariant', 'type_kind': ','.join(res.violated), 'value_kind': ''}, {'tlc_output_tail': res.out[-3000:]})
            return
        jopts = yopts = None
        for v in res.printed:
            if isinstance(v, list) and v and v[0] == 'JSONOPTS':
                jopts = v[1]['$set']
            if isinstance(v, list) and v and v[0] == 'YAMLOPTS':
                yopts = v[1]['$set']
        if not jopts or not yopts:
            raise MachineryError('option universes not printed by MC_IO')
        beh = simulate(80 if tier == 'quick' else 1500, 7, 5 + engine.seed())
        events, desc, ident = replay_steps(beh[::2], scratch, 0, 1)
        ev2, desc2, ident = replay_steps(beh[1::2], scratch, ident, 2)
        events += ev2
        desc.update(desc2)
        # part B
        n = 0
        for ci, (T, v) in enumerate(grammar_cases):
            c = Case(T, v, ci % 6)          # every spelling of the type, type literals included
            if c.err is not None or c.bf is not None:
                continue
            for fmt in ('json', 'yaml'):
                opts = jopts if fmt == 'json' else yopts
                o = opts[n % len(opts)]
                sink = SINKS[(n + n // len(SINKS)) % len(SINKS)]      # (a drifting rotation: every sink meets every spelling and format)
                n += 1
                ident += 1
                events.append(ev_round(ident, c, fmt, sink, o, scratch))
                desc[ident] = c
        bad = engine.validate(events, module='PaneIOTrace', cfg='PaneIOTrace.cfg', name='c19', chunks=1)
        rep.validated += len(events)
        evd = {e['id']: e for e in events}
        for i, clauses in bad.items():
            e = evd[i]
            for cl in clauses:
                if e['op'] == 'iostep':
                    rep.witness({'clause': cl, 'type_kind': f"{e['a']}:{e['s']}:{e['f']}", 'value_kind': 'step', 'outcome': e['raised']},
                                {'history': desc[i], 'event': e})
                else:
                    c = desc[i]
                    from .conv import tkind, vkind
                    sig = {'clause': cl, 'type_kind': tkind(c.T), 'value_kind': vkind(c.v, c.T), 'outcome': e['got']['k'] if cl != 'write-raised' else e['wrote'],
                           'fmt': e['fmt'], 'sink': e['sink']}
                    if cl in ('read-back-differs', 'read-back-failed', 'write-raised'):
                        sig['opts'] = ','.join(f'{k}={v}' for k, v in sorted(e['opts'].items()) if v not in ('none', 'F') and k != 'explicit_start')
                    rep.witness(sig, {**c.describe(), 'event': e})
        rep.samples += [{'op': evd[i]['op'], 'what': str(desc[i])[:200] if not isinstance(desc[i], Case) else desc[i].describe()['type'],
                         'fmt': evd[i].get('fmt'), 'sink': evd[i].get('sink'), 'opts': evd[i].get('opts')}
                        for i in list(evd)[:: max(1, len(evd) // 6)]][:6]
        rep.extra['replay'] = {'behaviours': len(beh), 'round_trips': n, 'events': len(events), 'rejected': len(bad),
                               'json_option_sets': len(jopts), 'yaml_option_sets': len(yopts)}
    finally:
        uninstall()
        shutil.rmtree(scratch, ignore_errors=True)
