"""Self-validation: behaviour-preserving edits of hexane360/pane must leave every check at exit 0.
The patch is applied to a scratch worktree of /repo under /tmp (never to /repo itself); the checks are
pointed at it with PANE_VERIF_REPO and write their evidence / replays into a scratch directory.
usage: /venv/bin/python -m harness.noalarm <noalarm dir> <check id>..."""
from __future__ import annotations

import os
import shutil
import subprocess
import sys

VERIF = os.path.dirname(os.path.dirname(os.path.abspath(__file__)))


def main():
    d, checks = os.path.abspath(sys.argv[1].rstrip('/')), sys.argv[2:]
    name = os.path.basename(d)
    wt = f'/tmp/nawt-{name}-{os.getpid()}'
    scratch = f'/tmp/naev-{name}-{os.getpid()}'
    subprocess.run(['git', '-C', '/repo', 'worktree', 'add', '--detach', '-q', wt, 'HEAD'], check=True)
    try:
        ap = subprocess.run(['git', '-C', wt, 'apply', os.path.join(d, 'patch.diff')], capture_output=True, text=True)
        if ap.returncode:
            print('patch does not apply:', ap.stderr[-300:])
            return 2
        os.makedirs(os.path.join(scratch, 'evidence'), exist_ok=True)
        env = dict(os.environ, PANE_VERIF_REPO=wt, PANE_VERIF_EVIDENCE=os.path.join(scratch, 'evidence'),
                   PANE_VERIF_REPLAYS=os.path.join(scratch, 'replays'))
        for c in checks:
            p = subprocess.run([os.path.join(VERIF, 'check'), c, '--tier', 'quick'], capture_output=True, text=True, cwd=VERIF, env=env)
            v = [ln for ln in p.stdout.splitlines() if ln.startswith('VIOLATION')]
            print(f'{name} {c}: ' + ('QUIET' if p.returncode == 0 else f'ALARM(exit {p.returncode}, {len(v)} violation lines)'), flush=True)
            if p.returncode:
                for ln in [x for x in p.stdout.splitlines() if 'signature' in x][:5]:
                    print('    ', ln.strip()[:220])
                if p.returncode == 2:
                    print(p.stderr[-800:])
    finally:
        subprocess.run(['git', '-C', '/repo', 'worktree', 'remove', '--force', wt])
        shutil.rmtree(scratch, ignore_errors=True)
    return 0


if __name__ == '__main__':
    sys.exit(main())
