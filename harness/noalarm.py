"""Self-validation: behaviour-preserving edits of /repo must leave every check at exit 0.
usage: /venv/bin/python -m harness.noalarm <noalarm dir> <check id>..."""
from __future__ import annotations

import os
import subprocess
import sys

VERIF = os.path.dirname(os.path.dirname(os.path.abspath(__file__)))


def main():
    d, checks = sys.argv[1].rstrip('/'), sys.argv[2:]
    st = subprocess.run(['git', '-C', '/repo', 'status', '--porcelain', '--untracked-files=no'], capture_output=True, text=True)
    if st.stdout.strip():
        print('refusing: /repo has uncommitted changes')
        return 2
    ap = subprocess.run(['git', '-C', '/repo', 'apply', os.path.join(d, 'patch.diff')], capture_output=True, text=True)
    if ap.returncode:
        print('patch does not apply:', ap.stderr[-300:])
        return 2
    try:
        for c in checks:
            p = subprocess.run([os.path.join(VERIF, 'check'), c, '--tier', 'quick'], capture_output=True, text=True, cwd=VERIF)
            v = [ln for ln in p.stdout.splitlines() if ln.startswith('VIOLATION')]
            print(f'{os.path.basename(d)} {c}: ' + ('QUIET' if p.returncode == 0 else f'ALARM(exit {p.returncode}, {len(v)} violation lines)'))
            if p.returncode:
                for ln in [x for x in p.stdout.splitlines() if 'signature' in x][:5]:
                    print('    ', ln.strip()[:220])
                if p.returncode == 2:
                    print(p.stderr[-800:])
    finally:
        subprocess.run(['git', '-C', '/repo', 'checkout', '--', '.'])
    return 0


if __name__ == '__main__':
    sys.exit(main())
