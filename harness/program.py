"""C17 driver: class-hierarchy programs enumerated by TLC (spec/MC_Program.tla) are defined for
real with types.new_class; definition outcome, signature, field order, frozenness, subscription
and conversions through the classes are recorded and judged by spec/PaneProgramTrace.tla."""
from __future__ import annotations

import inspect
import itertools
import gc
import types
import typing as t
import warnings

import pane

from . import engine, vocab
from .conv import outcome
from .vocab import OutOfVocab, abstract, concretise, text

warnings.simplefilter('ignore')
TVARS = {n: t.TypeVar(n) for n in ('T', 'U', 'V')}
_SCALAR = {'int': int, 'float': float, 'str': str, 'none': type(None)}


def ctype(T: dict):
    k = T['k']
    if k == 'tv':
        return TVARS[T['name']]
    if k in _SCALAR:
        return _SCALAR[k]
    if k == 'list':
        return list[(ctype(T['e']),)]        # (not typing.List[...]: typing's cache would conflate Union member orders)
    if k == 'union':
        return t.Union[tuple(ctype(a) for a in T['alts'])]
    if k == 'ann':
        return t.Annotated[(ctype(T['t']), *[vocab.concretise_cond(c) for c in T['cs']])]
    raise OutOfVocab(k)


def atype(ty) -> dict:
    """abstract form of an annotation as inspect.signature shows it"""
    if isinstance(ty, t.TypeVar):
        return {'k': 'tv', 'name': ty.__name__}
    for k, v in _SCALAR.items():
        if ty is v:
            return {'k': k}
    origin = t.get_origin(ty)
    args = t.get_args(ty)
    if origin in (list, t.List):
        return {'k': 'list', 'e': atype(args[0])}
    if origin is t.Union:
        return {'k': 'union', 'alts': [atype(a) for a in args]}
    if origin is t.Annotated:
        names = {'positive': 'pos', 'negative': 'neg', 'non-negative': 'nonneg', 'non-positive': 'nonpos', 'finite': 'finite'}
        return {'k': 'ann', 't': atype(args[0]), 'cs': [{'k': names.get(getattr(c, 'name', None), 'alien')} for c in args[1:]]}
    return {'k': 'alien', 'c': repr(ty)[:40]}


def define(prog: list):
    """Define every class of the program; returns (list of classes or None, outcome per class)."""
    classes, outs = [], []
    for d in prog:
        if classes and classes[-1] is None and d['base'] == len(classes):
            classes.append(None)
            outs.append('base-failed')
            continue
        try:
            if d['base'] == 0:
                bases: tuple = (pane.PaneBase,)
            else:
                b = classes[d['base'] - 1]
                if b is None:
                    raise RuntimeError('base failed')
                bases = (b[tuple(ctype(a) for a in d['bargs'])],) if d['bargs'] else (b,)
                if d.get('mix'):
                    m = classes[d['mix'] - 1]
                    if m is None:
                        raise RuntimeError('base failed')
                    bases = bases + (m,)
            if d['gen']:
                bases = bases + (t.Generic[tuple(TVARS[n] for n in d['gen'])],)
            ann: dict = {}
            ns: dict = {}
            for j, f in enumerate(d['own'], start=1):
                n = text(f['n'])
                ann[n] = ctype(f['t'])
                dflt = f['d']
                if f['kw'] == 'T':
                    ns[n] = pane.field(kw_only=True, **({'default': concretise(dflt['v'])} if dflt['k'] == 'val' else {}))
                elif dflt['k'] == 'val':
                    ns[n] = concretise(dflt['v'])
                if j == d['marker'] and d['marker'] < len(d['own']):
                    ann['_'] = pane.KW_ONLY
            ns['__annotations__'] = ann
            o = d['opts']
            kw = {}
            for k in ('kw_only', 'frozen'):
                if o[k] != 'unset':
                    kw[k] = o[k] == 'T'
            if o['extra'] != 'unset':
                kw['allow_extra'] = o['extra'] == 'T'
            if o['inf'] != ['unset']:
                kw['in_format'] = tuple(o['inf'])
            if o['outf'] != 'unset':
                kw['out_format'] = o['outf']
            cls = types.new_class(d['name'], bases, kw, lambda dd, ns=ns: dd.update(ns))
            vocab.KEEPALIVE.append(cls)
            classes.append(cls)
            outs.append('ok')
        except Exception as e:  # noqa
            classes.append(None)
            outs.append(type(e).__name__)
    return classes, outs


def sig_event(ident, prog, i, args, cls) -> dict:
    sig = inspect.signature(cls)
    rows = []
    for p in sig.parameters.values():
        rows.append({'n': vocab.tok(p.name), 'kw': 'T' if p.kind == p.KEYWORD_ONLY else 'F',
                     'hasdef': 'F' if p.default is p.empty else 'T', 't': atype(p.annotation)})
    info = cls.__pane_info__
    try:
        x = cls.make_unchecked(**{f.name: None for f in info.fields})
        import re
        reprorder = [vocab.tok(n) for n in re.findall(r'(\w+)=', repr(x))]
        try:
            setattr(x, info.fields[0].name, None)
            frozen = 'F'
        except Exception:  # noqa
            frozen = 'T'
    except Exception:  # noqa
        reprorder, frozen = ['?'], '?'
    params = [p.__name__ for p in getattr(cls, '__parameters__', ())]
    return {'id': ident, 'op': 'progsig', 'prog': prog, 'i': i, 'args': args, 'sig': rows, 'reprorder': reprorder,
            'frozen': frozen, 'params': params}


POOL = [1, 1.5, 'a', [1]]      # 1 is accepted by int and by float: which member of a substituted union wins shows in the image


def value_candidates(prog: list, i: int, small: bool) -> list:
    names = []
    d = prog[i - 1]
    chain = []
    j = i
    while j:
        chain.append(prog[j - 1])
        if prog[j - 1].get('mix'):
            chain.append(prog[prog[j - 1]['mix'] - 1])
        j = prog[j - 1]['base']
    for dd in reversed(chain):
        for f in dd['own']:
            if f['n'] not in names:
                names.append(f['n'])
    names = names[:3]
    vals = []
    pool = POOL[:3] if small else POOL
    for combo in itertools.product(pool, repeat=len(names)):
        vals.append({text(n): v for n, v in zip(names, combo)})
    for n in range(1, len(names) + 2):
        for combo in itertools.product(pool[:3], repeat=n):
            vals.append(list(combo))
    vals.append({**{text(n): 1 for n in names}, 'zz': 1})
    vals.append({text(names[0]): 1})
    return vals


def run(rep, tier: str) -> None:
    cfg = 'MC_Program_q.cfg' if tier == 'quick' else 'MC_Program_t.cfg'
    res = engine.model_check('MC_Program', cfg, dump=True)
    rep.add_mc(res, cfg)
    if res.violated:
        rep.witness({'clause': 'law-of-spec', 'type_kind': ','.join(res.violated), 'value_kind': ''}, {'tlc_output_tail': res.out[-3000:]})
        return
    progs = [st['prog'] for st in engine.dump_states(res)]
    rep.exhaustive = True
    step = 6 if tier == 'quick' else 9
    # replayed in chunks: the classes of a chunk (and pane's converter cache, which keeps them alive) are
    # dropped before the next one, so that three-level universes fit in memory
    chunk = 4000
    total_events = total_bad = 0
    if tier == 'thorough' and len(progs) > 60000:
        # TLC has checked the laws on every program; of the three-level ones every third is defined for real
        keep = [p for n, p in enumerate(progs) if len(p) < 3 or (n + engine.seed()) % 3 == 0]
        rep.extra['replayed_fraction_of_level3'] = '1/3 (rotating with VERIF_SEED)'
    else:
        keep = progs
    for lo in range(0, len(keep), chunk):
        mark = len(vocab.KEEPALIVE)
        events, desc = _events_for(keep[lo:lo + chunk], lo, step, tier)
        bad = engine.validate(events, module='PaneProgramTrace', cfg='PaneProgramTrace.cfg', name=f'c17-{lo // chunk}')
        rep.validated += len(events)
        total_events += len(events)
        total_bad += len(bad)
        evd = {e['id']: e for e in events}
        for k, clauses in bad.items():
            e = evd[k]
            prog = desc[k]
            for cl in clauses:
                rep.witness({'clause': cl, 'type_kind': shape(prog), 'value_kind': e['op'] + ':' + ('sub' if e.get('args') else 'plain'),
                             'outcome': e['out'] if isinstance(e.get('out'), str) else (e.get('out') or {}).get('k', '')},
                            {'program': source(prog), 'event': {k2: v for k2, v in e.items() if k2 != 'prog'}})
        if lo == 0:
            rep.samples += [{'program': source(desc[k]), 'event': evd[k]['op']} for k in list(evd)[:: max(1, len(evd) // 5)]][:5]
        del events, desc, evd
        del vocab.KEEPALIVE[mark:]
        try:
            from pane.convert import make_converter
            make_converter.cache.clear()
        except Exception:  # noqa
            pass
        gc.collect()
    rep.extra['replay'] = {'programs': len(progs), 'programs_defined_for_real': len(keep), 'events': total_events, 'rejected': total_bad}


def _events_for(progs: list, base: int, step: int, tier: str):
    events, desc = [], {}
    ident = 0
    for pi0, prog in enumerate(progs):
        pi = base + pi0
        classes, outs = define(prog)
        i = len(prog)
        if any(o != 'ok' for o in outs[:-1]):
            continue          # an ancestor failed although the model says it is fine: reported at that ancestor's own state
        ident += 1
        events.append({'id': ident, 'op': 'progdef', 'prog': prog, 'i': i, 'out': outs[-1]})
        desc[ident] = prog
        cls = classes[-1]
        if cls is None:
            continue
        variants = [([], cls)]
        # subscriptions by the number of parameters the MODEL says the class has are requested via the trace:
        U_IF = {'k': 'union', 'alts': [{'k': 'int'}, {'k': 'float'}]}
        U_FI = {'k': 'union', 'alts': [{'k': 'float'}, {'k': 'int'}]}
        # (the two unions are equal for typing, not for pane: the left-most accepting member wins)
        L_IF, L_FI = {'k': 'list', 'e': U_IF}, {'k': 'list', 'e': U_FI}
        for args in ([{'k': 'int'}], [{'k': 'int'}, {'k': 'str'}], [{'k': 'str'}], [U_IF], [U_FI], [L_IF], [L_FI]):
            try:
                sub = cls[tuple(ctype(a) for a in args)]
                so = 'ok'
            except Exception as e:  # noqa
                sub, so = None, type(e).__name__
            ident += 1
            events.append({'id': ident, 'op': 'subscript', 'prog': prog, 'i': i, 'args': args, 'out': so})
            desc[ident] = prog
            if sub is not None:
                variants.append((args, sub))
        for args, c in variants:
            ident += 1
            try:
                events.append(sig_event(ident, prog, i, args, c))
                desc[ident] = prog
            except OutOfVocab:
                pass
            if pi % step == 0:
                for v in value_candidates(prog, i, tier == 'quick'):
                    try:
                        av = abstract(v)
                    except OutOfVocab:
                        continue
                    ident += 1
                    events.append({'id': ident, 'op': 'prog_from_data', 'prog': prog, 'i': i, 'args': args, 'val': av,
                                   'out': outcome(pane.from_data, v, c)})
                    desc[ident] = prog
    return events, desc


def shape(prog: list) -> str:
    parts = []
    for d in prog:
        s = d['name']
        if d['gen']:
            s += '<' + ','.join(d['gen']) + '>'
        if d['bargs']:
            s += '(base[' + ','.join(_ts(a) for a in d['bargs']) + '])'
        if d.get('mix'):
            s += f"(bases {prog[d['base'] - 1]['name']},{prog[d['mix'] - 1]['name']})"
        own = ','.join(('kw ' if f['kw'] == 'T' else '') + text(f['n']) + ':' + _ts(f['t']) + ('=' if f['d']['k'] != 'nodef' else '') for f in d['own'])
        s += '{' + own + '}'
        if d['marker'] < len(d['own']):
            s += f'marker@{d["marker"]}'
        opts = ','.join(f'{k}={v}' for k, v in d['opts'].items() if v not in ('unset', ['unset']))
        if opts:
            s += '[' + opts + ']'
        parts.append(s)
    return ' ; '.join(parts)


def _ts(T) -> str:
    k = T['k']
    if k == 'tv':
        return T['name']
    if k == 'list':
        return f'List[{_ts(T["e"])}]'
    if k == 'union':
        return 'Union[' + ','.join(_ts(a) for a in T['alts']) + ']'
    return k


def source(prog: list) -> str:
    return shape(prog)
