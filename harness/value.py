"""C16 driver: classes of the option cube enumerated by TLC (spec/PaneValue.tla) are generated
for real, and ==, ordering, hash, assignment, deletion, copy, deepcopy, __replace__ and repr are
observed on real instances. The recorded observations are judged by spec/PaneValueTrace.tla."""
from __future__ import annotations

import copy
import re
import types
import typing as t
from dataclasses import FrozenInstanceError

import pane

from . import engine

NAMES = ['fa', 'fb', 'fc']
T = t.TypeVar('T')
_classes: dict = {}
_counters: dict = {}


def make(c: dict):
    """(class or None, creation outcome) for a cube point; 'other' = a second class with the same fields."""
    key = repr(sorted(c.items(), key=lambda kv: kv[0]))
    if key in _classes:
        return _classes[key]
    n = len(c['fl'])
    counter = [0]

    def body(ns):
        ann = {}
        for i in range(n):
            fl = c['fl'][i]
            ann[NAMES[i]] = T if (c['gen'] == 'T' and i == 0) else int
            ns[NAMES[i]] = pane.field(default=0, compare=fl['cmp'] == 'T', hash=fl['hash'] == 'T', repr=fl['repr'] == 'T')
        ns['__annotations__'] = ann
        if c['xh'] == 'T':
            ns['__hash__'] = lambda self: 7

        def __post_init__(self, _n=counter):
            _n[0] += 1
        ns['__post_init__'] = __post_init__
    kw = {'eq': c['eq'] == 'T', 'order': c['order'] == 'T', 'frozen': c['frozen'] == 'T'}
    if c['uh'] == 'T':
        kw['unsafe_hash'] = True
    bases = (pane.PaneBase, t.Generic[T]) if c['gen'] == 'T' else (pane.PaneBase,)
    try:
        cls = types.new_class('VC', bases, kw, body)
        other = types.new_class('VC', bases, kw, body)
        out = 'ok'
    except Exception as e:  # noqa
        cls = other = None
        out = type(e).__name__
    _classes[key] = (cls, other, out)
    _counters[cls] = counter
    return _classes[key]


def inst(cls, vals, how='ctor'):
    kw = dict(zip(NAMES, vals))
    return cls(**kw) if how == 'ctor' else cls.make_unchecked(**kw)


def _b(f):
    try:
        r = f()
    except Exception:  # noqa
        return 'exc'
    return 'NI' if r is NotImplemented else 'T' if r else 'F'


def _h(x):
    try:
        return 'ok', hash(x)
    except TypeError:
        return 'unhashable', None


def ev_cmp(ident, c, cls, a_obj, b_obj, a, b, rel, same):
    ha, va = _h(a_obj)
    hb, vb = _h(b_obj)
    return {'id': ident, 'op': 'cmp', 'cls': c, 'a': a, 'b': b, 'rel': rel, 'ident': 'T' if same else 'F',
            'eq': _b(lambda: a_obj == b_obj), 'ne': _b(lambda: a_obj != b_obj),
            'lt': _b(lambda: a_obj.__lt__(b_obj)), 'le': _b(lambda: a_obj.__le__(b_obj)),
            'gt': _b(lambda: a_obj.__gt__(b_obj)), 'ge': _b(lambda: a_obj.__ge__(b_obj)),
            'ha': ha, 'hb': hb, 'heq': 'na' if va is None or vb is None else 'T' if va == vb else 'F'}


def events_for_class(c: dict, pairs: list, ident: int, desc: dict) -> tuple:
    evs = []
    cls, other, out = make(c)
    ident += 1
    evs.append({'id': ident, 'op': 'defvcls', 'cls': c, 'out': out})
    desc[ident] = ('class creation', c)
    if cls is None:
        return evs, ident
    G_int = cls[int] if c['gen'] == 'T' else cls
    G_any = cls[t.Any] if c['gen'] == 'T' else cls
    for (a, b) in pairs:
        a_obj = inst(G_int, a)
        for rel in (['same', 'generic', 'other'] if c['gen'] == 'T' else ['same', 'other']):
            if rel == 'same':
                b_obj = inst(G_int, b)
            elif rel == 'generic':
                b_obj = inst(G_any, b) if (a[0] + b[0]) % 2 == 0 else inst(cls, b, 'unchecked')
            else:
                b_obj = inst(other[int] if c['gen'] == 'T' else other, b)
            ident += 1
            evs.append(ev_cmp(ident, c, cls, a_obj, b_obj, a, b, rel, False))
            desc[ident] = (f'{rel}: {a} vs {b}', c)
        if a == b:
            ident += 1
            evs.append(ev_cmp(ident, c, cls, a_obj, a_obj, a, a, 'same', True))
            desc[ident] = (f'identical object {a}', c)
    # relations through inheritance: sibling subclasses of one (parameterized) base, a subclass against its base,
    # a generic subclass with and without parameters
    try:
        S1 = types.new_class('VS1', (G_int,), {}, lambda ns: None)
        S2 = types.new_class('VS2', (G_int,), {}, lambda ns: None)
        inh = [('siblings', S1, S2), ('sub-vs-base', S1, G_int)]
        if c['gen'] == 'T':
            U = t.TypeVar('U')
            P = types.new_class('VP', (cls[U], t.Generic[U]), {}, lambda ns: None)
            inh.append(('subclass-params', P[int], P[t.Any]))
            inh.append(('subclass-params', P[int], P))
        sub_out = 'ok'
    except Exception as e:  # noqa
        inh, sub_out = [], type(e).__name__
    ident += 1
    evs.append({'id': ident, 'op': 'defsub', 'cls': c, 'out': sub_out})
    desc[ident] = ('subclass creation', c)
    for rel, ca, cb in inh:
        for (a, b) in pairs[:4] + [p for p in pairs if p[0] == p[1]][:2]:
            a_obj, b_obj = inst(ca, a), inst(cb, b, 'unchecked' if cb is not ca and rel == 'subclass-params' and cb.__dict__.get('__origin__') is None else 'ctor')
            ident += 1
            evs.append({'id': ident, 'op': 'cmpinh', 'cls': c, 'a': a, 'b': b, 'rel': rel,
                        'eq': _b(lambda: a_obj == b_obj), 'ne': _b(lambda: a_obj != b_obj), 'qe': _b(lambda: b_obj == a_obj)})
            desc[ident] = (f'{rel}: {a} vs {b}', c)
    # a subclass that declares one more field, without options of its own and with eq=False (it then inherits
    # the base's __eq__ - over the base's fields - and, without unsafe_hash, the base's __hash__)
    def _subbody(ns):
        ns['__annotations__'] = {'fz': int}
        ns['fz'] = 0
    for so_name, so in (('plain', {}), ('eqF', {'eq': False})):
        try:
            S = types.new_class('VSub', (G_int,), dict(so), _subbody)
            sub_out = 'ok'
        except Exception as e:  # noqa
            S, sub_out = None, type(e).__name__
        ident += 1
        evs.append({'id': ident, 'op': 'defsub', 'cls': c, 'out': sub_out})
        desc[ident] = (f'subclass creation ({so_name}, one more field)', c)
        if S is None:
            continue
        for (a, b) in pairs[:4] + [p for p in pairs if p[0] == p[1]][:2]:
            for za, zb in ((0, 0), (0, 1)):
                a_obj = S(**dict(zip(NAMES, a)), fz=za)
                b_obj = S(**dict(zip(NAMES, b)), fz=zb)
                (ha, va), (hb, vb) = _h(a_obj), _h(b_obj)
                ident += 1
                evs.append({'id': ident, 'op': 'cmpsub', 'cls': c, 'so': so_name, 'a': a, 'b': b, 'za': za, 'zb': zb,
                            'eq': _b(lambda: a_obj == b_obj), 'ne': _b(lambda: a_obj != b_obj), 'qe': _b(lambda: b_obj == a_obj),
                            'ha': ha, 'hb': hb, 'heq': 'na' if va is None or vb is None else 'T' if va == vb else 'F'})
                desc[ident] = (f'subclass {so_name} with one more field: {a}+{za} vs {b}+{zb}', c)
    # assignment / deletion
    n = len(c['fl'])
    for fi in range(n):
        x = G_int(**{NAMES[0]: 1})
        before = sorted(x.dict(set_only=True))
        _h(x)                       # (hashed once before the assignment: the hash must follow the fields)
        try:
            setattr(x, NAMES[fi], 2)
            o = 'ok'
        except FrozenInstanceError:
            o = 'FrozenInstanceError'
        except Exception as e:  # noqa
            o = type(e).__name__
        ident += 1
        ev = {'id': ident, 'op': 'mutate', 'cls': c, 'what': 'set', 'field': NAMES[fi], 'out': o,
              'set_before': before, 'set_after': sorted(x.dict(set_only=True)),
              'stored': 'T' if getattr(x, NAMES[fi]) == 2 else 'F', 'eq_after': 'na', 'heq_after': 'na'}
        if o == 'ok':
            y = inst(G_int, [getattr(x, NAMES[i]) for i in range(n)], 'unchecked')      # an equal, fresh instance
            (hx, vx), (hy, vy) = _h(x), _h(y)
            ev['eq_after'] = _b(lambda: x == y)
            ev['heq_after'] = 'na' if vx is None or vy is None else 'T' if vx == vy else 'F'
        evs.append(ev)
        desc[ident] = (f'setattr {NAMES[fi]}', c)
        try:
            delattr(x, NAMES[fi])
            o = 'ok'
        except AttributeError:
            o = 'AttributeError'
        except Exception as e:  # noqa
            o = type(e).__name__
        ident += 1
        evs.append({'id': ident, 'op': 'mutate', 'cls': c, 'what': 'del', 'field': NAMES[fi], 'out': o,
                    'set_before': before, 'set_after': before, 'stored': 'T'})
        desc[ident] = (f'delattr {NAMES[fi]}', c)
    # copies
    counter = _counters[cls]
    for supplied in ([0], list(range(n))):
        vals = [1 if i in supplied else 0 for i in range(n)]
        x = G_int(**{NAMES[i]: 1 for i in supplied})
        before = sorted(x.dict(set_only=True))
        for how in ('copy', 'deepcopy'):
            h0 = counter[0]
            try:
                y = copy.copy(x) if how == 'copy' else copy.deepcopy(x)
                o = {'k': 'ok', 'vals': [getattr(y, NAMES[i]) for i in range(n)], 'set': sorted(y.dict(set_only=True))}
                isnew, eqorig = ('T' if y is not x else 'F'), ('T' if y == x else 'F')
                # the copy's record of set fields is its own: an assignment to the copy leaves the original's alone
                indep = 'na'
                if c['frozen'] == 'F' and y is not x:
                    setattr(y, NAMES[n - 1], 0)
                    indep = 'T' if sorted(x.dict(set_only=True)) == before and NAMES[n - 1] in y.dict(set_only=True) else 'F'
            except Exception as e:  # noqa
                o, isnew, eqorig, indep = {'k': 'exc', 'c': type(e).__name__}, 'F', 'F', 'na'
            ident += 1
            evs.append({'id': ident, 'op': 'copyop', 'how': how, 'cls': c, 'vals': vals, 'set_before': before, 'names': NAMES[:n],
                        'ch': [], 'out': o, 'isnew': isnew, 'eqorig': eqorig, 'hook': counter[0] - h0, 'indep': indep})
            desc[ident] = (f'{how} of {vals} set={before}', c)
        for ch in ([[n, 2]], [[1, 2]], [[n, -1]]):
            kwargs = {NAMES[i - 1]: (v if v != -1 else 'zz') for i, v in ch}
            try:
                y = x.__replace__(**kwargs)
                o = {'k': 'ok', 'vals': [getattr(y, NAMES[i]) for i in range(n)], 'set': sorted(y.dict(set_only=True))}
            except pane.ConvertError:
                o = {'k': 'reject'}
            except Exception as e:  # noqa
                o = {'k': 'exc', 'c': type(e).__name__}
            ident += 1
            evs.append({'id': ident, 'op': 'copyop', 'how': 'replace', 'cls': c, 'vals': vals, 'set_before': before, 'names': NAMES[:n],
                        'ch': ch, 'out': o, 'isnew': 'T', 'eqorig': 'F', 'hook': 1})
            desc[ident] = (f'replace {kwargs} on {vals} set={before}', c)
    x = G_int(**{NAMES[i]: i + 1 for i in range(n)})
    r = repr(x)
    ident += 1
    evs.append({'id': ident, 'op': 'repr', 'cls': c, 'names': NAMES[:n], 'shown': re.findall(r'(\w+)=', r),
                'named': 'T' if r.startswith('VC(') and r.endswith(')') else 'F'})
    desc[ident] = (f'repr -> {r}', c)
    return evs, ident


def run(rep, tier: str) -> None:
    res = engine.model_check('MC_Value', 'MC_Value.cfg', dump=True, facts=False)
    rep.add_mc(res, 'MC_Value.cfg')
    if res.violated:
        rep.witness({'clause': 'law-of-spec', 'type_kind': ','.join(res.violated), 'value_kind': ''}, {'tlc_output_tail': res.out[-3000:]})
        return
    states = engine.dump_states(res)
    classes = [st['cls'] for st in states if st['ph'] == 'class']
    pairs_all = sorted({(tuple(st['xa']), tuple(st['xb'])) for st in states if st['ph'] == 'insts'})
    pairs = [(list(a), list(b)) for a, b in pairs_all]
    if tier == 'quick':
        pairs = [p for p in pairs if max(p[0] + p[1]) <= 1] + pairs[::7]
    rep.exhaustive = True
    events, desc = [], {}
    ident = 0
    for c in classes:
        evs, ident = events_for_class(c, pairs, ident, desc)
        events += evs
    bad = engine.validate(events, module='PaneValueTrace', cfg='PaneValueTrace.cfg', name='c16')
    rep.validated += len(events)
    evd = {e['id']: e for e in events}
    for i, clauses in bad.items():
        what, c = desc[i]
        e = evd[i]
        for cl in clauses:
            cube = ','.join(f"{k}={c[k]}" for k in ('eq', 'order', 'frozen', 'uh', 'xh', 'gen'))
            sig = {'clause': cl, 'type_kind': 'cube:' + cube, 'value_kind': e['op'] + (':' + e.get('rel', e.get('how', e.get('what', ''))) if e['op'] != 'repr' else '')}
            if cl in ('ordering', 'trichotomy', 'equality', 'inequality'):
                sig['value_kind'] += ':fields-equal' if e.get('a') == e.get('b') else ':fields-differ'
            rep.witness(sig, {'what': what, 'class': c, 'event': e})
    rep.samples += [{'what': desc[i][0], 'class': desc[i][1]} for i in list(evd)[:: max(1, len(evd) // 6)]][:6]
    rep.extra['replay'] = {'classes': len(classes), 'instance_pairs': len(pairs), 'events': len(events), 'rejected': len(bad)}
