"""Running TLC / SANY from the harness."""
from __future__ import annotations
import os
import re
import shutil
import subprocess
import time
from dataclasses import dataclass, field

from . import tlaval

VERIF = os.path.dirname(os.path.dirname(os.path.abspath(__file__)))
SPEC = os.path.join(VERIF, 'spec')
JAR = '/opt/veriftools/tla/tla2tools.jar:/opt/veriftools/tla/CommunityModules-deps.jar'


class MachineryError(Exception):
    """Something in the verification machinery (not in pane) failed: exit code 2."""


@dataclass
class TlcResult:
    ok: bool
    generated: int = 0
    distinct: int = 0
    depth: int = 0
    wall_s: float = 0.0
    out: str = ''
    violated: list = field(default_factory=list)   # names of violated invariants/properties
    printed: list = field(default_factory=list)    # PrintT values (parsed)
    coverage: dict = field(default_factory=dict)
    dump: str | None = None


_workroot = None


def workdir(name: str) -> str:
    global _workroot
    if _workroot is None:
        _workroot = os.path.join(VERIF, '.work', str(os.getpid()))
        os.makedirs(_workroot, exist_ok=True)
    d = os.path.join(_workroot, name)
    os.makedirs(d, exist_ok=True)
    return d


def cleanup():
    global _workroot
    if _workroot and os.path.isdir(_workroot) and not os.environ.get('VERIF_KEEP'):
        shutil.rmtree(_workroot, ignore_errors=True)
    _workroot = None


_SUMMARY = re.compile(r'(\d+) states generated, (\d+) distinct states found')
_DEPTH = re.compile(r'The depth of the complete state graph search is (\d+)')
_VIOL = re.compile(r'Invariant (\S+) is violated|Action property (\S+) is violated|Temporal properties were violated|Assumption .* is false')


def run_tlc(module: str, cfg: str, *, name: str | None = None, workers: int | str = 16, dump: bool = False,
            env: dict | None = None, timeout: int = 1800, extra: list | None = None, heap: str = '8g',
            deadlock: bool = False, coverage: bool = False) -> TlcResult:
    """Run TLC on spec/<module>.tla with spec/<cfg>. Returns a TlcResult; raises MachineryError on
    parse/semantic errors or crashes (never for a violated invariant: that is result.violated)."""
    wd = workdir(name or f'{module}-{os.path.basename(cfg)}')
    meta = os.path.join(wd, 'meta')
    shutil.rmtree(meta, ignore_errors=True)
    cmd = ['java', '-XX:+UseParallelGC', f'-Xmx{heap}', '-cp', JAR, 'tlc2.TLC',
           '-workers', str(workers), '-metadir', meta, '-noGenerateSpecTE',
           '-config', os.path.join(SPEC, cfg)]
    if not deadlock:
        cmd.append('-deadlock')   # -deadlock DISABLES deadlock checking
    dump_path = None
    if dump:
        dump_path = os.path.join(wd, 'states')
        cmd += ['-dump', dump_path]
        dump_path += '.dump'
    if coverage:
        cmd += ['-coverage', '1']
    if extra:
        cmd += extra
    cmd.append(os.path.join(SPEC, module + '.tla'))
    e = dict(os.environ)
    if env:
        e.update(env)
    t0 = time.time()
    try:
        p = subprocess.run(cmd, cwd=SPEC, env=e, stdout=subprocess.PIPE, stderr=subprocess.STDOUT,
                           text=True, timeout=timeout)
    except subprocess.TimeoutExpired as ex:
        raise MachineryError(f'TLC timed out after {timeout}s on {module}/{cfg}') from ex
    out = p.stdout
    res = TlcResult(ok=False, out=out, wall_s=time.time() - t0, dump=dump_path)
    ms = _SUMMARY.findall(out)
    if ms:
        res.generated, res.distinct = int(ms[-1][0]), int(ms[-1][1])
    m = _DEPTH.search(out)
    if m:
        res.depth = int(m.group(1))
    for m in _VIOL.finditer(out):
        res.violated.append(m.group(1) or m.group(2) or m.group(0))
    res.printed = parse_printed(out)
    finished = 'Model checking completed. No error has been found.' in out
    if finished:
        res.ok = True
    elif res.violated:
        res.ok = False
    else:
        with open(os.path.join(wd, 'tlc.out'), 'w') as f:
            f.write(out)
        raise MachineryError(f'TLC failed on {module}/{cfg} (exit {p.returncode}); tail:\n' + out[-3000:])
    return res


def parse_printed(out: str) -> list:
    """Values printed with PrintT(<<"TAG", ...>>): every line (or multi-line block) starting with <<"."""
    vals = []
    lines = out.split('\n')
    i = 0
    while i < len(lines):
        ln = lines[i]
        if re.match(r'<<\s*"', ln):
            buf = ln
            depth = _balance(buf)
            while depth > 0 and i + 1 < len(lines):
                i += 1
                buf += '\n' + lines[i]
                depth = _balance(buf)
            try:
                vals.append(tlaval.parse(buf))
            except Exception:
                pass
        i += 1
    return vals


def _balance(s: str) -> int:
    # count << >> outside strings
    s2 = re.sub(r'"(?:[^"\\]|\\.)*"', '', s)
    return s2.count('<<') - s2.count('>>')


def sany(module: str) -> None:
    cmd = ['java', '-cp', JAR, 'tla2sany.SANY', os.path.join(SPEC, module + '.tla')]
    p = subprocess.run(cmd, cwd=SPEC, stdout=subprocess.PIPE, stderr=subprocess.STDOUT, text=True, timeout=300)
    if p.returncode != 0 or 'rror' in p.stdout.replace('Semantic errors:\n\n', ''):
        if 'Fatal' in p.stdout or 'Semantic errors' in p.stdout or 'Parse Error' in p.stdout or p.returncode != 0:
            raise MachineryError(f'SANY rejected {module}:\n{p.stdout[-3000:]}')
