"""Engines shared by all checks (DESIGN section 5): exhaustive TLC + dump (E1), trace
validation (E2), evidence, known findings, reporting."""
from __future__ import annotations

import concurrent.futures as cf
import json
import os
import sys
import time

from . import tlaval, tlc, vocab
from .tlc import MachineryError, VERIF

EVID = os.environ.get('PANE_VERIF_EVIDENCE') or os.path.join(VERIF, 'evidence')    # (self-validation runs write elsewhere)
REPLAYS = os.environ.get('PANE_VERIF_REPLAYS') or os.path.join(VERIF, 'replays')


def seed() -> int:
    try:
        return int(os.environ.get('VERIF_SEED', '0'))
    except ValueError:
        return 0


# ---------------------------------------------------------------------------------------
# E1: exhaustive model checking, dump, cases
def model_check(module: str, cfg: str, *, dump: bool = False, facts: bool = True, workers=16,
                timeout: int = 1800, coverage: bool = False, name: str | None = None, env: dict | None = None):
    e = dict(env or {})
    if facts:
        fp = os.path.join(tlc.workdir('facts'), 'facts.json')
        vocab.write_facts(fp)
        e['PANE_FACTS'] = fp
    res = tlc.run_tlc(module, cfg, dump=dump, env=e, workers=workers, timeout=timeout, coverage=coverage, name=name)
    return res


def dump_states(res) -> list:
    if not res.dump or not os.path.exists(res.dump):
        raise MachineryError('TLC wrote no dump')
    with open(res.dump) as f:
        text = f.read()
    blocks = list(tlaval.split_dump(text))
    if len(blocks) > 4000:
        with cf.ProcessPoolExecutor(max_workers=12) as ex:
            chunks = [blocks[i::12] for i in range(12)]
            parts = list(ex.map(_parse_blocks, chunks))
        states = [s for p in parts for s in p]
    else:
        states = _parse_blocks(blocks)
    os.remove(res.dump)
    return states


def _parse_blocks(blocks):
    return [tlaval.parse_state(b) for b in blocks]


# ---------------------------------------------------------------------------------------
# E2: trace validation
def validate(events: list, *, module: str = 'PaneTrace', cfg: str = 'PaneTrace.cfg', chunks: int = 14,
             name: str = 'trace') -> dict:
    """Validate recorded events with TLC. Returns {event id: [failed clause names]} for the
    rejected events (empty dict = the whole trace is allowed by the specification)."""
    if not events:
        return {}
    wd = tlc.workdir(name)
    fp = os.path.join(wd, 'facts.json')
    vocab.write_facts(fp)
    n = max(1, min(chunks, (len(events) + 499) // 500))
    parts = [events[i::n] for i in range(n)]
    jobs = []
    for i, part in enumerate(parts):
        tp = os.path.join(wd, f'trace{i}.ndjson')
        with open(tp, 'w') as f:
            for e in part:
                f.write(json.dumps(e, separators=(',', ':')))
                f.write('\n')
        jobs.append((i, tp, len(part)))

    def run(job):
        i, tp, cnt = job
        res = tlc.run_tlc(module, cfg, name=f'{name}-{i}', workers=1, env={'PANE_FACTS': fp, 'PANE_TRACE': tp},
                          heap='3g', timeout=3600)
        if not res.ok:
            raise MachineryError(f'trace validation did not complete (chunk {i}): {res.violated}\n{res.out[-2000:]}')
        if res.distinct != cnt + 1:
            raise MachineryError(f'trace chunk {i}: {cnt} events but {res.distinct} states')
        bad = None
        for v in res.printed:
            if isinstance(v, list) and v and v[0] == 'BAD':
                bad = v[1]
        if bad is None:
            raise MachineryError(f'trace chunk {i}: no BAD report in TLC output\n{res.out[-2000:]}')
        return bad['$set'] if isinstance(bad, dict) else bad

    out: dict = {}
    with cf.ThreadPoolExecutor(max_workers=n) as ex:
        for bad in ex.map(run, jobs):
            for ident, clause in bad:
                out.setdefault(ident, []).append(clause)
    return out


# ---------------------------------------------------------------------------------------
# known findings
def load_findings() -> list:
    with open(os.path.join(VERIF, 'known_findings.json')) as f:
        return json.load(f)['findings']


def match_finding(findings: list, prop: str, sig: dict):
    """A finding entry matches when status is "known", the property is listed and every key of
    its `match` dict equals (or, for lists, contains) the signature's value."""
    for fd in findings:
        if fd.get('status') != 'known':
            continue
        props = fd.get('properties') or [fd.get('property')]
        if prop not in props:
            continue
        ok = True
        for k, want in fd['match'].items():
            if k == 'features_all':
                if not set(want) <= set(sig.get('features') or []):
                    ok = False
                    break
                continue
            if k == 'value_features_all':
                if not set(want) <= set(sig.get('value_features') or []):
                    ok = False
                    break
                continue
            if k == 'value_features_none':
                if set(want) & set(sig.get('value_features') or []):
                    ok = False
                    break
                continue
            if k == 'shape_prefix':
                if not str(sig.get('shape', '')).startswith(want):
                    ok = False
                    break
                continue
            if k == 'shape_contains':
                if want not in str(sig.get('shape', '')):
                    ok = False
                    break
                continue
            if k == 'type_kind_prefix':
                if not str(sig.get('type_kind', '')).startswith(want):
                    ok = False
                    break
                continue
            have = sig.get(k)
            if isinstance(want, list):
                if have not in want:
                    ok = False
                    break
            elif have != want:
                ok = False
                break
        if ok:
            return fd
    return None


# ---------------------------------------------------------------------------------------
# reporting
class Report:
    def __init__(self, prop: str, tier: str):
        self.prop = prop
        self.tier = tier
        self.t0 = time.time()
        self.states = 0
        self.transitions = 0
        self.validated = 0
        self.samples: list = []
        self.extra: dict = {}
        self.assumptions: list = []
        self.violations: list = []      # (sig, witness dict)
        self.known_seen: dict = {}      # finding id -> count
        self.skipped = 0
        self.findings = load_findings()
        import glob
        for old in glob.glob(os.path.join(REPLAYS, f'{prop}-*.json')):
            os.remove(old)
        self.exhaustive = False
        self.notes: list = []

    def add_mc(self, res, label: str):
        self.states += res.distinct
        self.transitions += res.generated
        self.extra.setdefault('model_runs', []).append(
            {'config': label, 'distinct_states': res.distinct, 'states_generated': res.generated,
             'depth': res.depth, 'wall_s': round(res.wall_s, 1), 'invariants_violated': res.violated})

    def witness(self, sig: dict, wit: dict):
        fd = match_finding(self.findings, self.prop, sig)
        if fd is not None:
            c = self.known_seen.setdefault(fd['id'], {'count': 0, 'what': fd['what']})
            c['count'] += 1
            return
        self.violations.append((sig, wit))

    def finish(self, level: str = 'model_checking') -> int:
        os.makedirs(EVID, exist_ok=True)
        rc = 0
        for fid, c in sorted(self.known_seen.items()):
            print(f"KNOWN-FINDING: property={self.prop} {c['what']} [{fid}; seen {c['count']}x]")
        if self.violations:
            rc = 1
            rdir = REPLAYS
            os.makedirs(rdir, exist_ok=True)
            seen = set()
            n = 0
            for sig, wit in self.violations:
                key = json.dumps(sig, sort_keys=True)
                if key in seen:
                    continue
                seen.add(key)
                n += 1
                if n > 25:
                    break
                path = os.path.join(rdir, f'{self.prop}-{n}.json')
                with open(path, 'w') as f:
                    json.dump({'property': self.prop, 'signature': sig, 'witness': wit,
                               'rerun': f'./check {self.prop} --replay {path}'}, f, indent=1, default=str)
                print(f'VIOLATION property={self.prop} replay={path}')
                print(f'  signature: {key}')
                print(f'  witness: {json.dumps(wit, default=str)[:600]}')
        cov = {
            'states': self.states, 'transitions': self.transitions,
            'traces_validated_against_impl': self.validated,
            'samples': self.samples[:8] or [{'note': 'no sample recorded'}],
            'exhaustive': self.exhaustive,
            'skipped_outside_vocabulary': self.skipped,
            'known_findings_seen': self.known_seen,
            'distinct_violation_signatures': len({json.dumps(s, sort_keys=True) for s, _ in self.violations}),
            'notes': self.notes,
        }
        cov.update(self.extra)
        ev = {'property_id': self.prop, 'tier': self.tier, 'seed': seed(), 'level': level,
              'coverage': cov, 'assumptions': self.assumptions,
              'wall_s': round(time.time() - self.t0, 1), 'violations': len(self.violations)}
        with open(os.path.join(EVID, f'{self.prop}.json'), 'w') as f:
            json.dump(ev, f, indent=1, default=str)
        print(f'{self.prop} [{self.tier}] states={self.states} transitions={self.transitions} '
              f'events_validated={self.validated} violations={len(self.violations)} '
              f'known={sum(c["count"] for c in self.known_seen.values())} wall={ev["wall_s"]}s')
        return rc
