"""The Python counterpart of spec/PaneVocab.tla: abstraction of Python values into the
vocabulary of the specification, concretisation of abstract values / types into real Python
objects, string interning with environment facts.

Trusted (see DESIGN section 9).  Nothing here imports expected results: the oracle is TLC.
"""
from __future__ import annotations

import collections
import collections.abc
import datetime
import decimal
import enum
import fractions
import json
import math
import os
import pathlib
import re
import types
import typing as t

import pane
from pane.annotations import Condition, Tagged
import pane.annotations as pa
import pane.types as _ptypes

try:
    import numpy as _np
except ImportError:      # pragma: no cover
    _np = None
INT_MAX = 2 ** 31 - 1
BIG = 10 ** 400
Q_MAX = 2 ** 20


class OutOfVocab(Exception):
    """The object cannot be written in the vocabulary (event skipped and counted)."""


# ---------------------------------------------------------------------------------------
# string / bytes pool.  token -> text.  Tokens are the only strings TLC sees.
POOL: dict[str, t.Union[str, bytes]] = {
    's_a': 'a', 's_b': 'b', 's_c': 'c', 's_ab': 'ab', 's_zz': 'zz', 's_empty': '', 's_5': '5',
    's_dec': '1.50', 's_frac': '3/4', 's_frac0': '1/0', 's_date': '2020-01-02',
    's_time': '11:12:13', 's_dt': '2020-01-02T11:12:13', 's_path': '/tmp/x/y.txt',
    's_re': 'a+b*', 's_badre': '(', 's_ovre': 'a{4294967296}', 's_baddate': '2020-13-45',
    's_nan': 'nan', 's_uni': 'héllo wörld ✓ \U0001f600', 's_ml': 'line1\nline2\n',
    's_sp': '  padded  ', 's_yes': 'yes', 's_null': 'null', 's_tilde': '~', 's_1e3': '1e3',
    's_colon': ': #', 's_t': 't', 's_kind': 'kind', 's_x': 'x', 's_y': 'y', 's_z': 'z',
    's_w': 'w', 's_v': 'v', 's_W': 'W', 's_X': 'X', 's_ab_cd': 'ab_cd', 's_abCd': 'abCd', 's_AbCd': 'AbCd', 's_ab_cd_k': 'ab-cd', 's_AB_CD': 'AB_CD', 's_nfrac': '-3/4', 's_abc': 'abc', 's_v1': 'v1', 's_v2': 'v2', 's_v3': 'v3',
    's_start': 'start', 's_end': 'end', 's_n': 'n', 's_step': 'step', 's_inner': 'inner',
    'b_x': b'xyz', 'b_empty': b'', 'b_re': b'a+', 'b_badre': b'(',
}
_by_text: dict[t.Union[str, bytes], str] = {}
for _k, _v in POOL.items():
    assert _v not in _by_text, f'pool texts must be unique: {_k}'
    _by_text[_v] = _k
_texts: dict[str, t.Union[str, bytes]] = dict(POOL)
_counter = [0]
_PFX = os.environ.get('PANE_VERIF_TOKPREFIX', '')     # distinct tokens for a recording sub-process


def merge_tokens(texts: dict, facts_tbl: dict) -> None:
    """Adopt tokens interned (and facts computed) by a recording sub-process."""
    for k, v in texts.items():
        if k not in _texts and v is not None:
            _texts[k] = v
            _by_text.setdefault(v, k)
    for k, f in facts_tbl.items():
        _facts.setdefault(k, f)


def tok(text: t.Union[str, bytes]) -> str:
    """Intern a text (str or bytes), return its ASCII token."""
    if isinstance(text, (bytearray, memoryview)):
        text = bytes(text)
    if type(text) not in (str, bytes):
        text = str(text) if isinstance(text, str) else bytes(text)
    k = _by_text.get(text)
    if k is None:
        _counter[0] += 1
        k = _PFX + ('u' if isinstance(text, str) else 'v') + str(_counter[0])
        _by_text[text] = k
        _texts[k] = text
        facts(k)  # interns canonical forms too
    return k


def text(token: str) -> t.Union[str, bytes]:
    return _texts[token]


_facts: dict[str, dict] = {}
NO_NUM = {'q': [0, 1], 'sp': 'no'}


def _num_of_decimal(d: decimal.Decimal) -> dict:
    if d.is_nan():
        return {'q': [0, 1], 'sp': 'nan'}
    if d.is_infinite():
        return {'q': [0, 1], 'sp': 'inf' if d > 0 else 'ninf'}
    n, den = d.as_integer_ratio()
    if abs(n) > Q_MAX or den > Q_MAX:
        raise OutOfVocab('decimal too wide')
    if n == 0 and d.is_signed():
        return {'q': [0, 1], 'sp': 'nzero'}
    return {'q': [n, den], 'sp': 'fin'}


def facts(token: str) -> dict:
    """Environment facts of a token, computed with the standard library only."""
    f = _facts.get(token)
    if f is not None:
        return f
    s = _texts[token]
    f = {'dec': NO_NUM, 'fr': [0, 0], 'date': '', 'time': '', 'dt': '', 're': 'ok', 'len': len(s), 'path': token}
    _facts[token] = f  # before recursion on canonical forms
    try:
        re.compile(s)
    except Exception as e:  # noqa
        f['re'] = type(e).__name__
    if isinstance(s, str):
        try:
            f['path'] = tok(str(pathlib.PurePosixPath(s)))
        except Exception:
            pass
        try:
            f['dec'] = _num_of_decimal(decimal.Decimal(s))
        except OutOfVocab:
            f['dec'] = NO_NUM
            f['oov'] = 1
        except Exception:
            pass
        try:
            fr = fractions.Fraction(s)
            if abs(fr.numerator) <= Q_MAX and fr.denominator <= Q_MAX:
                f['fr'] = [fr.numerator, fr.denominator]
            else:
                f['oov'] = 1
        except ZeroDivisionError:
            f['fr'] = [0, -1]
        except Exception:
            pass
        for key, cls in (('date', datetime.date), ('time', datetime.time), ('dt', datetime.datetime)):
            try:
                f[key] = tok(cls.fromisoformat(s).isoformat())
            except Exception:
                pass
    return f


def facts_table() -> dict:
    for k in list(_texts):
        facts(k)
    return {k: {kk: vv for kk, vv in f.items() if kk != 'oov'} for k, f in _facts.items()}


def write_facts(path: str) -> None:
    with open(path, 'w') as fh:
        json.dump(facts_table(), fh)


# ---------------------------------------------------------------------------------------
# numbers
def _q(fr: fractions.Fraction) -> list:
    if abs(fr.numerator) > Q_MAX or fr.denominator > Q_MAX:
        raise OutOfVocab('rational too wide')
    return [fr.numerator, fr.denominator]


def num_of_float(x: float) -> dict:
    if math.isnan(x):
        return {'q': [0, 1], 'sp': 'nan'}
    if math.isinf(x):
        return {'q': [0, 1], 'sp': 'inf' if x > 0 else 'ninf'}
    if x == 0 and math.copysign(1.0, x) < 0:
        return {'q': [0, 1], 'sp': 'nzero'}
    return {'q': _q(fractions.Fraction(x)), 'sp': 'fin'}


def float_of_num(nm: dict) -> float:
    sp = nm['sp']
    if sp == 'nan':
        return float('nan')
    if sp == 'inf':
        return float('inf')
    if sp == 'ninf':
        return float('-inf')
    if sp == 'nzero':
        return -0.0
    return nm['q'][0] / nm['q'][1]


# ---------------------------------------------------------------------------------------
# generated classes: registries keyed by name so that projection can recognise instances
class OtherSeq(collections.abc.Sequence):
    """A Sequence that is neither list nor tuple (interchange flavour "other")."""
    def __init__(self, xs):
        self._xs = list(xs)

    def __len__(self):
        return len(self._xs)

    def __getitem__(self, i):
        return self._xs[i]

    def __eq__(self, other):
        return isinstance(other, OtherSeq) and self._xs == other._xs

    def __repr__(self):
        return f'OtherSeq({self._xs!r})'


SUB_CLASSES: dict[str, type] = {}      # name -> subclass of a basic type
ENUM_CLASSES: dict[str, type] = {}     # name -> Enum class
PANE_CLASSES: dict[str, type] = {}     # canonical descriptor json -> class
KEEPALIVE: list = []                   # every generated type object (see DESIGN: id-keyed cache)

_BASE_OF_KIND = {'int': int, 'str': str, 'float': float, 'bytes': bytes, 'list': list, 'dict': dict,
                 'tuplevar': tuple, 'set': set, 'complex': complex}


# ---------------------------------------------------------------------------------------
# abstraction of values
def abstract(x: t.Any) -> dict:
    """Project a Python value (interchange or typed) into the vocabulary. Exactly typed."""
    ty = type(x)
    if x is None:
        return {'k': 'none'}
    if ty is bool:
        return {'k': 'bool', 'b': 'T' if x else 'F'}
    if ty is int:
        if x == BIG:
            return {'k': 'bigint', 'sign': 1}
        if abs(x) > INT_MAX:
            raise OutOfVocab('int too wide')
        return {'k': 'int', 'n': x}
    if ty is float:
        return {'k': 'float', **num_of_float(x)}
    if ty is complex:
        return {'k': 'complex', 're': num_of_float(x.real), 'im': num_of_float(x.imag)}
    if ty is str:
        return {'k': 'str', 's': tok(x)}
    if ty is bytes:
        return {'k': 'bytes', 's': tok(x), 'mut': 'F'}
    if ty is bytearray:
        return {'k': 'bytes', 's': tok(bytes(x)), 'mut': 'T'}
    if ty is list:
        return {'k': 'seq', 'f': 'list', 'xs': [abstract(e) for e in x]}
    if ty is tuple:
        return {'k': 'seq', 'f': 'tuple', 'xs': [abstract(e) for e in x]}
    if ty is collections.deque:
        return {'k': 'seq', 'f': 'deque', 'xs': [abstract(e) for e in x]}
    if ty is OtherSeq:
        return {'k': 'seq', 'f': 'other', 'xs': [abstract(e) for e in x]}
    if ty is dict:
        return {'k': 'map', 'f': 'dict', 'ps': [[abstract(k), abstract(v)] for k, v in x.items()]}
    if ty is collections.defaultdict:
        return {'k': 'map', 'f': 'ddlist' if x.default_factory is list else 'defaultdict', 'ps': [[abstract(k), abstract(v)] for k, v in x.items()]}
    if ty is collections.OrderedDict:
        return {'k': 'map', 'f': 'ordereddict', 'ps': [[abstract(k), abstract(v)] for k, v in x.items()]}
    if ty is collections.Counter:
        return {'k': 'map', 'f': 'counter', 'ps': [[abstract(k), abstract(v)] for k, v in x.items()]}
    if ty is types.MappingProxyType:
        return {'k': 'map', 'f': 'proxy', 'ps': [[abstract(k), abstract(v)] for k, v in x.items()]}
    if ty is set or ty is frozenset:
        es = [abstract(e) for e in x]
        es.sort(key=lambda a: json.dumps(a, sort_keys=True))
        return {'k': 'set', 'f': 'set' if ty is set else 'frozenset', 'es': es}
    if ty is fractions.Fraction:
        return {'k': 'frac', 'q': _q(x)}
    if ty is decimal.Decimal:
        return {'k': 'dec', **_num_of_decimal(x)}
    if ty is datetime.datetime:
        return {'k': 'datetime', 's': tok(x.isoformat())}
    if ty is datetime.date:
        return {'k': 'date', 's': tok(x.isoformat())}
    if ty is datetime.time:
        return {'k': 'time', 's': tok(x.isoformat())}
    if isinstance(x, pathlib.PurePath):
        return {'k': 'path', 's': tok(str(x))}
    if ty is re.Pattern:
        return {'k': 'pat', 's': tok(x.pattern), 'b': 'T' if isinstance(x.pattern, bytes) else 'F'}
    if isinstance(x, enum.Enum) and ty.__name__ in ENUM_CLASSES and ENUM_CLASSES[ty.__name__] is ty:
        return {'k': 'enum', 'e': ty.__name__, 'i': list(ty.__members__.values()).index(x) + 1}
    if _np is not None and ty is _np.ndarray:
        return {'k': 'ndarray', 'shape': list(x.shape), 'xs': [abstract(e) for e in x.ravel().tolist()]}
    if ty is _ptypes.ValueOrList:
        return {'k': 'vol', 'one': 'T' if x._is_val else 'F', 'x': abstract(x._inner)}
    if isinstance(x, pane.PaneBase):
        info = ty.__pane_info__
        fs = []
        for f in info.fields:
            try:
                v = getattr(x, f.name)
            except AttributeError:
                v = _Unset
            fs.append([tok(f.name), {'k': 'unset'} if v is _Unset else abstract(v)])
        try:
            st = sorted(tok(n) for n in x.dict(set_only=True))      # the documented view of the set-field record
        except Exception:  # noqa
            try:
                st = sorted(tok(n) for n in getattr(x, '__pane_set__'))
            except AttributeError:
                st = ['?noset']
        return {'k': 'inst', 'c': ty.__name__, 'fs': fs, 'set': st}
    if ty.__name__ in SUB_CLASSES and SUB_CLASSES[ty.__name__] is ty:
        for bk, b in _BASE_OF_KIND.items():
            if issubclass(ty, b) and not (b is int and issubclass(ty, bool)):
                return {'k': 'sub', 'c': ty.__name__, 'x': abstract(b(x))}
    raise OutOfVocab(f'no abstraction for {ty!r}')


class _UnsetT:
    pass


_Unset = _UnsetT()


# ---------------------------------------------------------------------------------------
# concretisation of values (data and typed)
def concretise(a: dict) -> t.Any:
    k = a['k']
    if k == 'none':
        return None
    if k == 'bool':
        return a['b'] == 'T'
    if k == 'int':
        return a['n']
    if k == 'bigint':
        return BIG
    if k == 'float':
        return float_of_num(a)
    if k == 'complex':
        return complex(float_of_num(a['re']), float_of_num(a['im']))
    if k == 'str':
        return text(a['s'])
    if k == 'bytes':
        b = text(a['s'])
        return bytearray(b) if a['mut'] == 'T' else b
    if k == 'seq':
        xs = [concretise(e) for e in a['xs']]
        f = a['f']
        return xs if f == 'list' else tuple(xs) if f == 'tuple' else collections.deque(xs) if f == 'deque' else OtherSeq(xs)
    if k == 'map':
        d = {concretise(p[0]): concretise(p[1]) for p in a['ps']}
        if len(d) != len(a['ps']):
            raise OutOfVocab('colliding keys')
        f = a['f']
        if f == 'dict':
            return d
        if f == 'proxy':
            return types.MappingProxyType(d)
        if f == 'defaultdict':
            return collections.defaultdict(None, d)
        if f == 'ddlist':
            return collections.defaultdict(list, d)
        if f == 'ordereddict':
            return collections.OrderedDict(d)
        if f == 'counter':
            return collections.Counter(d)
    if k == 'set':
        es = _set_elems(a['es'])
        return set(es) if a['f'] == 'set' else frozenset(es)
    if k == 'frac':
        return fractions.Fraction(a['q'][0], a['q'][1])
    if k == 'dec':
        sp = a['sp']
        if sp == 'fin':
            return decimal.Decimal(a['q'][0]) / decimal.Decimal(a['q'][1])
        return decimal.Decimal({'nan': 'NaN', 'inf': 'Infinity', 'ninf': '-Infinity', 'nzero': '-0'}[sp])
    if k == 'date':
        return datetime.date.fromisoformat(text(a['s']))
    if k == 'time':
        return datetime.time.fromisoformat(text(a['s']))
    if k == 'datetime':
        return datetime.datetime.fromisoformat(text(a['s']))
    if k == 'path':
        return pathlib.PurePosixPath(text(a['s']))
    if k == 'pat':
        return re.compile(text(a['s']))
    if k == 'ndarray':
        flat = [concretise(e) for e in a['xs']]
        return _np.array(flat).reshape(tuple(a['shape']))
    if k == 'enum':
        return list(ENUM_CLASSES[a['e']].__members__.values())[a['i'] - 1]
    if k == 'sub':
        return SUB_CLASSES[a['c']](concretise(a['x']))
    if k == 'vol':
        return _ptypes.ValueOrList(concretise(a['x']), a['one'] == 'T')
    raise OutOfVocab(f'cannot concretise {k}')


def _set_elems(es):
    if isinstance(es, dict) and '$set' in es:
        es = es['$set']
    return [concretise(e) for e in es]


# ---------------------------------------------------------------------------------------
# conditions
def concretise_cond(c: dict, variant: int = 0) -> Condition:
    k = c['k']
    simple = {'pos': pa.Positive, 'neg': pa.Negative, 'nonneg': pa.NonNegative, 'nonpos': pa.NonPositive,
              'finite': pa.Finite, 'empty': pa.Empty, 'nonempty': pa.NonEmpty}
    if k in simple:
        return simple[k]
    if k == 'ge':
        return pa.val_range(min=_thr(c['q']))
    if k == 'le':
        return pa.val_range(max=_thr(c['q']))
    if k == 'lenge':
        return pa.len_range(min=c['n'])
    if k == 'lenle':
        return pa.len_range(max=c['n'])
    if k == 'shape':
        return pa.shape(list(c['shape']) if variant % 2 else tuple(c['shape']))
    if k == 'bcast':
        return pa.broadcastable(list(c['shape']) if variant % 2 else tuple(c['shape']))
    if k == 'utrue':
        return _USER['utrue']
    if k == 'ufalse':
        return _USER['ufalse']
    if k == 'uraise':
        return _USER['uraise']
    if k == 'even':
        return _USER['even']
    if k == 'not':
        return ~concretise_cond(c['c'], variant)
    if k in ('and', 'or'):
        cs = c['cs']
        kinds = [x['k'] for x in cs]
        if k == 'and' and variant % 2 == 0:
            if kinds in (['ge', 'le'], ['ge'], ['le']) and len(set(kinds)) == len(kinds):
                kw = {}
                for x in cs:
                    kw['min' if x['k'] == 'ge' else 'max'] = _thr(x['q'])
                return pa.val_range(**kw)
            if kinds in (['lenge', 'lenle'], ['lenge'], ['lenle']):
                kw = {}
                for x in cs:
                    kw['min' if x['k'] == 'lenge' else 'max'] = x['n']
                return pa.len_range(**kw)
        subs = [concretise_cond(x, variant) for x in cs]
        if variant % 2 == 1 and len(subs) == 2:
            return (subs[0] & subs[1]) if k == 'and' else (subs[0] | subs[1])
        return Condition.all(*subs) if k == 'and' else Condition.any(*subs)
    raise OutOfVocab(f'condition {k}')


def _thr(q):
    return q[0] if q[1] == 1 else q[0] / q[1]


def _uraise(v):
    raise ZeroDivisionError('user predicate raised')


def _even(v):
    if not isinstance(v, int) or isinstance(v, bool):      # (an instance of a subclass of int is an int)
        raise TypeError('even: not an int')
    return v % 2 == 0


_USER = {
    'utrue': Condition(lambda v: True, 'utrue'),
    'ufalse': Condition(lambda v: False, 'ufalse'),
    'uraise': Condition(_uraise, 'uraise'),
    'even': Condition(_even, 'even'),
}


# ---------------------------------------------------------------------------------------
# types
_SCALARS = {
    'none': [type(None)], 'bool': [bool], 'int': [int], 'float': [float], 'complex': [complex],
    'str': [str], 'bytes': [bytes], 'bytearray': [bytearray],
    'decimal': [decimal.Decimal], 'fraction': [fractions.Fraction],
    'date': [datetime.date], 'time': [datetime.time], 'datetime': [datetime.datetime],
    'path': [pathlib.PurePosixPath, pathlib.PurePath, pathlib.Path, os.PathLike],
    'pattern': [re.Pattern, t.Pattern, re.Pattern[str], t.Pattern[str]],
    'patternb': [re.Pattern[bytes], t.Pattern[bytes]],
    'any': [t.Any],
}


def n_spellings(T: dict) -> int:
    k = T['k']
    if k in _SCALARS:
        return len(_SCALARS[k])
    return {'list': 4, 'tuplevar': 4, 'set': 3, 'frozenset': 3, 'deque': 2, 'tuple': 3, 'dict': 5,
            'defaultdict': 2, 'ordereddict': 2, 'counter': 2, 'union': 3, 'ann': 2, 'ndarray': 1}.get(k, 1)


def canon(a) -> str:
    return json.dumps(a, sort_keys=True, separators=(',', ':'))


_type_cache: dict = {}


def concretise_type(T: dict, sp: int = 0, lit_ok: bool = True) -> t.Any:
    """Build the real Python type object for the abstract type T. `sp` selects the spelling of
    the outermost constructor (children use spelling sp too, modulo their own count).
    lit_ok=False: not the tuple-literal spelling (X[(A, B)] means X[A, B] to Python)."""
    key = (canon(T), sp, lit_ok)
    r = _type_cache.get(key)
    if r is None:
        try:
            r = _concretise_type(T, sp, lit_ok)
        except OutOfVocab:
            raise
        except TypeError as e:
            # raised by the typing module while the type expression is being written (e.g. an unhashable
            # type literal inside typing.Union): the expression cannot be spelled this way; pane is not involved
            raise OutOfVocab('typing refuses this spelling: ' + str(e)[:80])
        _type_cache[key] = r
        if not isinstance(r, (tuple, dict)):
            # the same type object wherever the expression occurs (as a user's alias would be): top level and nested
            _type_cache.setdefault((key[0], sp, not lit_ok), r)
        KEEPALIVE.append(r)
    return r


def _ix(G, params):
    """G[params] without typing's subscription cache: the cache compares arguments with ==, and
    Union[A, B] == Union[B, A], so List[Union[B, A]] would come back as an earlier List[Union[A, B]]."""
    g = getattr(G, '__getitem__', None)
    w = getattr(g, '__wrapped__', None)
    r = w(G, params) if w is not None else G[params]
    want = params if isinstance(params, tuple) else (params,)
    got = t.get_args(r)
    if want != () and (len(got) != len(want) or any(a is not b for a, b in zip(got, want))):
        raise OutOfVocab('typing does not keep the arguments as written')
    return r


def _ix_generic_class(G, param):
    """G[param] for a user-defined Generic class, keeping the argument as written (see _ix)."""
    r = G[param]
    if t.get_args(r)[0] is not param:
        w = getattr(getattr(t, '_generic_class_getitem', None), '__wrapped__', None)
        if w is None:
            raise OutOfVocab('typing does not keep the arguments as written')
        r = w(G, param)
        if t.get_args(r)[0] is not param:
            raise OutOfVocab('typing does not keep the arguments as written')
    return r


def _flat_union_args(alts):
    out = []
    for a in alts:
        for x in (t.get_args(a) if t.get_origin(a) is t.Union else (a,)):
            if not any(x is y for y in out):
                out.append(x)
    return out


def _ix_union(alts, optional=False):
    """Union[alts] with the member order as written (see _ix)."""
    if len(alts) == 1:
        return alts[0]
    w = getattr(t.Union.__getitem__, '__wrapped__', None)
    r = w(t.Union, tuple(alts)) if w is not None else t.Union[tuple(alts)]
    want = _flat_union_args(alts)
    got = t.get_args(r) if t.get_origin(r) is t.Union else (r,)
    if len(got) != len(want) or any(a is not b for a, b in zip(got, want)):
        raise OutOfVocab('typing does not keep the union members as written')
    return r


def _ix_annotated(inner, cs):
    r = t.Annotated[(inner, *cs)]
    base = inner.__origin__ if isinstance(inner, t._AnnotatedAlias) else inner
    if r.__origin__ is not base:
        r = t._AnnotatedAlias(base, (*(inner.__metadata__ if isinstance(inner, t._AnnotatedAlias) else ()), *cs))
    if r.__origin__ is not base:
        raise OutOfVocab('typing does not keep the annotated type as written')
    return r


def _concretise_type(T: dict, sp: int, lit_ok: bool = True) -> t.Any:
    k = T['k']
    if k in _SCALARS:
        opts = _SCALARS[k]
        return opts[sp % len(opts)]
    sub = lambda X: concretise_type(X, sp, k in ('tuple', 'struct', 'cls') and (k != 'tuple' or (lit_ok and sp % 3 == 2)))  # noqa

    def pick(kids, opts, pep585):
        # typing generics refuse type literals ((A, B) / {'x': A}) as parameters, PEP 585 ones do not
        if any(isinstance(x, (dict, tuple)) for x in kids):
            return opts[pep585]()
        return opts[sp % len(opts)]()
    anyelem = lambda key: T[key]['k'] == 'any'      # noqa  (X[Any] may also be written without its argument)
    if k == 'list':
        E = sub(T['e'])
        if anyelem('e') and sp % 6 in (4, 5):
            return [list, t.List][sp % 2]
        return pick([E], [lambda: _ix(t.List, (E,)), lambda: list[E], lambda: _ix(t.MutableSequence, (E,)), lambda: collections.abc.MutableSequence[E]], 1)
    if k == 'tuplevar':
        E = sub(T['e'])
        if anyelem('e') and sp % 6 in (3, 4, 5):
            return [tuple, t.Tuple, t.Sequence][sp % 3]
        return pick([E], [lambda: _ix(t.Tuple, (E, ...)), lambda: tuple[E, ...], lambda: _ix(t.Sequence, (E,)), lambda: collections.abc.Sequence[E]], 1)
    if k == 'set':
        E = sub(T['e'])
        if anyelem('e') and sp % 6 in (4, 5):
            return [set, t.Set][sp % 2]
        return pick([E], [lambda: _ix(t.Set, (E,)), lambda: set[E], lambda: _ix(t.MutableSet, (E,))], 1)
    if k == 'frozenset':
        E = sub(T['e'])
        if anyelem('e') and sp % 6 in (4, 5):
            return [frozenset, t.FrozenSet][sp % 2]
        return pick([E], [lambda: _ix(t.FrozenSet, (E,)), lambda: frozenset[E], lambda: _ix(t.AbstractSet, (E,))], 1)
    if k == 'deque':
        E = sub(T['e'])
        if anyelem('e') and sp % 6 in (4, 5):
            return [collections.deque, t.Deque][sp % 2]
        return pick([E], [lambda: _ix(t.Deque, (E,)), lambda: collections.deque[E]], 1)
    if k == 'tuple':
        es = tuple(sub(e) for e in T['es'])
        if len(es) == 0:
            return [_ix(t.Tuple, ()), tuple[()], ()][sp % 3 if lit_ok else sp % 2]
        if not lit_ok:
            return pick(es, [lambda: _ix(t.Tuple, es), lambda: tuple[es]], 1)
        if sp % 3 == 2:
            return es
        return pick(es, [lambda: _ix(t.Tuple, es), lambda: tuple[es]], 1)
    if k == 'dict':
        K, V = sub(T['kt']), sub(T['vt'])
        if anyelem('kt') and anyelem('vt') and sp % 6 in (3, 4, 5):
            return [dict, t.Dict, t.Mapping][sp % 3]
        return pick([K, V], [lambda: _ix(t.Dict, (K, V)), lambda: dict[K, V], lambda: _ix(t.Mapping, (K, V)), lambda: _ix(t.MutableMapping, (K, V)), lambda: collections.abc.Mapping[K, V]], 1)
    if k == 'defaultdict':
        K, V = sub(T['kt']), sub(T['vt'])
        if anyelem('kt') and anyelem('vt') and sp % 6 in (4, 5):
            return [collections.defaultdict, t.DefaultDict][sp % 2]
        return pick([K, V], [lambda: _ix(t.DefaultDict, (K, V)), lambda: collections.defaultdict[K, V]], 1)
    if k == 'ordereddict':
        K, V = sub(T['kt']), sub(T['vt'])
        if anyelem('kt') and anyelem('vt') and sp % 6 in (4, 5):
            return [collections.OrderedDict, t.OrderedDict][sp % 2]
        return pick([K, V], [lambda: _ix(t.OrderedDict, (K, V)), lambda: collections.OrderedDict[K, V]], 1)
    if k == 'counter':
        K = sub(T['kt'])
        return pick([K], [lambda: _ix(t.Counter, (K,)), lambda: collections.Counter[K]], 1)
    if k == 'struct':
        return {text(f[0]): sub(f[1]) for f in T['fs']}
    if k == 'union':
        alts = [sub(a) for a in T['alts']]
        for a in alts:
            if isinstance(a, (dict, tuple)):
                raise OutOfVocab('type literal inside typing.Union')
        v = sp % 3
        if v == 1 and len(alts) == 2 and alts[1] is type(None):
            return _ix_union((alts[0], type(None)), optional=True)
        if v == 2 and len(alts) >= 3:
            return _ix_union((_ix_union((alts[0], alts[1])), _ix_union(tuple(alts[2:]))))
        return _ix_union(tuple(alts))
    if k == 'lit':
        return t.Literal[tuple(concretise(v) for v in T['vs'])]
    if k == 'enum':
        name = T['name']
        vals = [concretise(v) for v in T['vs']]
        cls = ENUM_CLASSES.get(name)
        if cls is None:
            cls = enum.Enum(name, [(f'M{i + 1}', v) for i, v in enumerate(vals)])
            ENUM_CLASSES[name] = cls
        elif [m.value for m in cls] != vals:
            raise OutOfVocab(f'enum name {name} reused with other values')
        return cls
    if k == 'ann':
        inner = sub(T['t'])
        if isinstance(inner, (dict, tuple)):
            raise OutOfVocab('type literal inside Annotated')
        cs = [concretise_cond(c, sp) for c in T['cs']]
        if sp % 2 == 1 and len(cs) >= 2:
            return _ix_annotated(_ix_annotated(inner, cs[:1]), cs[1:])
        return _ix_annotated(inner, cs)
    if k == 'sub':
        name = T['name']
        cls = SUB_CLASSES.get(name)
        base = _BASE_OF_KIND[T['base']['k']]
        if cls is None:
            cls = type(name, (base,), {})
            SUB_CLASSES[name] = cls
        elif cls.__bases__[0] is not base:
            raise OutOfVocab(f'sub name {name} reused')
        return cls
    if k == 'tvar':
        ts = [sub(x) for x in T['ts']]
        name = 'TV' + str(abs(hash(canon(T))) % 10 ** 6)
        if T['var'] == 'free':
            return t.TypeVar(name)
        if T['var'] == 'bound':
            return t.TypeVar(name, bound=ts[0])
        return t.TypeVar(name, *ts)
    if k == 'tagged':
        vs = [sub(v) for v in T['vars']]
        lay = T['lay']
        ext: t.Any = False if lay == 'int' else True if lay == 'ext' else (text(T['tk']), text(T['ck']))
        return _ix_annotated(_ix_union(tuple(vs)), [Tagged(text(T['tag']), ext)])
    if k == 'cls':
        if T['hook']['k'] == 'rangehook':       # the shipped pane.types.Range, parameterized by its number type
            return _ptypes.Range[{'int': int, 'float': float}[T['fs'][0]['t']['k']]]
        return make_class(T, sp)
    if k == 'vol':
        E = sub(T['e'])
        if isinstance(E, (dict, tuple)):
            raise OutOfVocab('type literal as a type argument')
        return _ix_generic_class(_ptypes.ValueOrList, E)
    if k == 'ndarray':
        if _np is None:
            raise OutOfVocab('numpy missing')
        dt = {'int': _np.int64, 'float': _np.float64, 'bool': _np.bool_}.get(T['e']['k'])
        if dt is None:
            return _np.ndarray
        return _np.ndarray[t.Any, _np.dtype[dt]]
    raise OutOfVocab(f'type kind {k}')


def make_class(C: dict, sp: int = 0) -> type:
    """Generate the PaneBase subclass described by the abstract class descriptor."""
    key = canon(C) + '|' + str(sp)      # one class per spelling of its field types (a class spelled once and reused under
    cls = PANE_CLASSES.get(key)         # another spelling would differ from the stand-alone spelling of its field types)
    if cls is not None:
        return cls
    ann: dict = {}
    ns: dict = {}
    spell = C.get('spell')
    parent = C.get('parent')
    base_cls = make_class(parent, sp) if parent else pane.PaneBase
    inherited = {canon(f) for f in parent['fs']} if parent else set()
    for fi, f in enumerate(C['fs']):
        if canon(f) in inherited:
            continue          # declared by the parent class, not again here
        n = text(f['n'])
        ann[n] = concretise_type(f['t'], sp)
        kw: dict = {}
        d = f['d']
        if d['k'] == 'val':
            kw['default'] = concretise(d['v'])
        elif d['k'] == 'fac':
            kw['default_factory'] = _factory(d['v'])
            _pending_fac = kw['default_factory']
        if f['kw'] == 'T':
            kw['kw_only'] = True
        ins = [text(x) for x in f['ins']]
        if spell is not None:
            # written as the spelling says; the names it should yield are f['ins'] / f['out'] (derived by the spec)
            fsp = spell['flds'][fi]
            if fsp['k'] == 'rename':
                kw['rename'] = text(fsp['to'])
            elif fsp['k'] == 'aliases':
                kw['aliases'] = tuple(text(x) for x in fsp['names'])
            elif fsp['k'] == 'in_names':
                kw['in_names'] = tuple(text(x) for x in fsp['names'])
            if fsp['outname'] != '':
                kw['out_name'] = text(fsp['outname'])
        else:
            if ins != [n]:
                if ins[0] == n:
                    kw['aliases'] = tuple(ins[1:])
                else:
                    kw['in_names'] = tuple(ins)
            if text(f['out']) != n:
                kw['out_name'] = text(f['out'])
        if f['ex'] == 'T':
            kw['exclude'] = True
        if f.get('init', 'T') == 'F':
            kw['init'] = False
        if set(kw) <= {'default'}:
            if 'default' in kw:
                ns[n] = kw['default']
        else:
            ns[n] = pane.field(**kw)
            if 'default_factory' in kw:
                _FACT_OBJS[id(ns[n])] = kw['default_factory']
                KEEPALIVE.append(ns[n])
    ns['__annotations__'] = ann
    hook = C['hook']
    counter = [0]
    cond = concretise_cond(hook['c']) if hook['k'] == 'rejectif' else None
    fname = text(hook['f']) if hook['k'] == 'rejectif' else None

    setname = text(hook['f']) if hook['k'] == 'rejectifset' else None

    def __post_init__(self, _c=cond, _f=fname, _n=counter, _s=setname):
        _n[0] += 1                    # observable: how often the hook ran (C14, C16)
        if _c is not None and _c.f(getattr(self, _f)):
            raise ValueError('hook refuses ' + _f)
        if _s is not None and _s in self.dict(set_only=True):        # the hook's own view of the set-field record
            raise ValueError('hook refuses an explicitly given ' + _s)
    inherits_hook = parent is not None and canon(parent['hook']) == canon(hook)
    if inherits_hook:
        counter = HOOK_COUNTERS[base_cls]         # the hook (and its run counter) is the parent's: not defined again
    else:
        ns['__post_init__'] = __post_init__
    inf = C['inf']['$set'] if isinstance(C['inf'], dict) else C['inf']
    opts = {'in_format': tuple(sorted(inf)), 'out_format': C['outf']}
    if C['extra'] == 'T':
        opts['allow_extra'] = True
    if spell is not None:
        csp = spell['cls']
        if csp['how'] == 'rename':
            opts['rename'] = csp['out']
        elif csp['how'] == 'in_out':
            if csp['ins']:
                opts['in_rename'] = tuple(csp['ins']) if len(csp['ins']) > 1 or sp % 2 == 0 else csp['ins'][0]
            if csp['out'] != 'none':
                opts['out_rename'] = csp['out']
    try:
        cls = types.new_class(C['name'], (base_cls,), opts, lambda d: d.update(ns))
    except Exception as e:  # noqa
        CLASS_DEF_FAILURES.append((C['name'], type(e).__name__, str(e)[:120]))
        raise OutOfVocab(f'class definition refused by pane: {type(e).__name__}: {e}')
    HOOK_COUNTERS[cls] = counter
    FACTORIES[cls] = {text(f['n']): _FACT_OBJS[id(ns[text(f['n'])])] for f in C['fs']
                      if f['d']['k'] == 'fac' and id(ns.get(text(f['n']))) in _FACT_OBJS}
    PANE_CLASSES[key] = cls
    KEEPALIVE.append(cls)
    return cls


CLASS_DEF_FAILURES: list = []     # reported in the evidence (a well-formed generated class must be definable)
HOOK_COUNTERS: dict = {}
FACTORIES: dict = {}
_FACT_OBJS: dict = {}


def _factory(v: dict):
    def factory():
        return concretise(v)
    return factory


def type_repr(ty) -> str:
    try:
        return repr(ty)
    except Exception:
        return '<type>'
