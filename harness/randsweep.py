"""Self-validation of the random stages: run only the random stage of a property for several seeds and
list the signatures that are neither quiet nor a known finding.
usage: /venv/bin/python -m harness.randsweep <prop> <n cases> <seed>..."""
from __future__ import annotations

import json
import sys

sys.path.insert(0, '/repo')

from . import checks, conv, engine, pipeline, randgen  # noqa: E402
from .engine import Report  # noqa: E402

STAGES = {
    'C01': (checks.C01_CLAUSES, conv.ev_from_data),
    'C03': (checks.C03_CLAUSES, conv.ev_passes),
    'C05': (checks.C05_CLAUSES, conv.ev_roundtrip),
    'C07': (checks.C07_CLAUSES, conv.ev_tree),
    'C08': (checks.C08_CLAUSES, conv.ev_render),
    'C09': ({'input-mutated'}, conv.ev_snapshot),
    'C06': (checks.C06_CLAUSES, conv.ev_fixpoint),
}


def main():
    prop, n, seeds = sys.argv[1], int(sys.argv[2]), [int(x) for x in sys.argv[3:]]
    owned, maker = STAGES[prop]
    rc = 0
    for sd in seeds:
        rep = Report(prop, 'quick')
        tvs = randgen.cases(1000 + sd, n, 4)
        st = pipeline.run_events(rep, tvs, owned, label=f'sweep-{prop.lower()}-{sd}', make_event=maker)
        sigs = {}
        for sig, wit in rep.violations:
            sigs.setdefault(json.dumps(sig, sort_keys=True), wit)
        print(f'{prop} seed={sd} executed={st["executed"]} skipped={st["skipped"]} rejected={st["rejected_events"]} '
              f'new-signatures={len(sigs)} known={sorted(rep.known_seen)}', flush=True)
        for k, w in sigs.items():
            rc = 1
            print('   ', k[:400])
            print('       ', str(w.get('type'))[:300], '|', str(w.get('value'))[:300])
            with open(f'/tmp/sweep-{prop}-{sd}-{len(k) % 1000}.json', 'w') as f:
                json.dump({'signature': json.loads(k), 'witness': w}, f)
    return rc


if __name__ == '__main__':
    sys.exit(main())
