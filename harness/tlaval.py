"""TLA+ value syntax <-> JSON-ish Python.

TLC prints values (in -dump files and PrintT output) in TLA+ syntax:
   <<a, b>>  sequences, {a, b} sets, [f |-> v, ...] records, "s" strings, integers, TRUE/FALSE.
The specs in /verif/spec only use these forms (no `:>`/`@@` functions), so a token rewrite
into JSON followed by json.loads is enough and fast (10 MB in ~3 s).

Sets become {"$set": [...]} so that they can be told from sequences.
"""
from __future__ import annotations
import json
import re

_TOK = re.compile(r'''
    (?P<str>"(?:[^"\\]|\\.)*")
  | (?P<lseq><<)
  | (?P<rseq>>>)
  | (?P<arrow>\|->)
  | (?P<lrec>\[)
  | (?P<rrec>\])
  | (?P<lset>\{)
  | (?P<rset>\})
  | (?P<comma>,)
  | (?P<int>-?\d+)
  | (?P<id>[A-Za-z_][A-Za-z0-9_]*)
  | (?P<ws>\s+)
  | (?P<other>.)
''', re.X | re.S)


def tla_to_json_text(s: str) -> str:
    out = []
    pend_id = None
    for m in _TOK.finditer(s):
        k = m.lastgroup
        t = m.group()
        if k == 'ws':
            continue
        if pend_id is not None:
            # an identifier is either a record field name (followed by |->) or TRUE/FALSE
            if k == 'arrow':
                out.append(json.dumps(pend_id))
                out.append(':')
                pend_id = None
                continue
            if pend_id == 'TRUE':
                out.append('true')
            elif pend_id == 'FALSE':
                out.append('false')
            else:
                out.append(json.dumps({'$id': pend_id}))
            pend_id = None
        if k == 'str':
            out.append(t)
        elif k == 'lseq':
            out.append('[')
        elif k == 'rseq':
            out.append(']')
        elif k == 'lrec':
            out.append('{')
        elif k == 'rrec':
            out.append('}')
        elif k == 'lset':
            out.append('{"$set":[')
        elif k == 'rset':
            out.append(']}')
        elif k == 'comma':
            out.append(',')
        elif k == 'int':
            out.append(t)
        elif k == 'id':
            pend_id = t
        elif k == 'arrow':
            raise ValueError('unexpected |->')
        else:
            raise ValueError(f'unsupported TLA+ value syntax near {t!r} in {s[max(0, m.start()-40):m.start()+40]!r}')
    if pend_id is not None:
        out.append('true' if pend_id == 'TRUE' else 'false' if pend_id == 'FALSE' else json.dumps({'$id': pend_id}))
    return ''.join(out)


def parse(s: str):
    return json.loads(tla_to_json_text(s))


_STATE_HDR = re.compile(r'^State (\d+):\s*$', re.M)
_VAR = re.compile(r'^(?:/\\ )?([A-Za-z_][A-Za-z0-9_]*) = ', re.M)


def split_dump(text: str):
    """Yield the text of each `State n:` block of a TLC -dump file."""
    pos = [m.start() for m in _STATE_HDR.finditer(text)]
    pos.append(len(text))
    for a, b in zip(pos, pos[1:]):
        nl = text.index('\n', a)
        yield text[nl + 1:b]


def parse_state(block: str) -> dict:
    """Parse one state block (`/\\ v = value` conjuncts, values may span lines)."""
    ms = list(_VAR.finditer(block))
    st = {}
    for i, m in enumerate(ms):
        end = ms[i + 1].start() if i + 1 < len(ms) else len(block)
        st[m.group(1)] = parse(block[m.end():end])
    return st


def parse_dump(path: str):
    with open(path) as f:
        text = f.read()
    return [parse_state(b) for b in split_dump(text)]


def unset(v):
    """Recursively turn {"$set": [...]} into sorted-by-json lists tagged as python frozensets is
    not possible for dicts, so keep a canonical JSON-able form: {"$set": sorted list}."""
    if isinstance(v, dict):
        if '$set' in v and len(v) == 1:
            xs = [unset(x) for x in v['$set']]
            xs.sort(key=lambda x: json.dumps(x, sort_keys=True))
            return {'$set': xs}
        return {k: unset(x) for k, x in v.items()}
    if isinstance(v, list):
        return [unset(x) for x in v]
    return v
