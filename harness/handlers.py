"""C18 driver: every configuration of the handler-precedence model (spec/PaneHandlers.tla) is built
for real - field converter, call-level custom=, class-level custom= (own / inherited), an enclosing
dataclass' custom=, the type's _converter protocol, one registered global handler - with MARKER
converters, so that the converter actually used can be read off the result."""
from __future__ import annotations

import types
import typing as t

import pane
from pane.convert import make_converter, register_converter_handler
from pane.converters import Converter

from . import engine


class Mark:
    """result of a marker converter: remembers which source produced it"""
    def __init__(self, src, val):
        self.src, self.val = src, val

    def __repr__(self):
        return f'Mark({self.src})'

    def __eq__(self, other):
        return isinstance(other, Mark) and self.src == other.src


class MarkConv(Converter):
    def __init__(self, src):
        self.src = src

    def expected(self, plural=False):
        return f'marker {self.src}'

    def try_convert(self, val):
        return Mark(self.src, val)

    def collect_errors(self, val):
        return None

    def into_data(self, val):
        return 'into:' + self.src


class Proto:
    """a type with its own converter protocol"""
    def __init__(self, v=None):
        self.v = v

    @classmethod
    def _converter(cls, *args, handlers):
        return MarkConv('P')


class MyList(list):
    pass


class Plain:
    pass


class RegBox(t.Generic[t.TypeVar('RB')]):
    """a third-party container: only the registered global handler knows how to convert it"""
    def __init__(self, v=None):
        self.v = v


class RegBoxConv(Converter):
    """what a registered handler for a container does: it builds the converter of the argument from the handlers it is given"""
    def __init__(self, inner):
        self.inner = inner

    def expected(self, plural=False):
        return 'box of ' + self.inner.expected(plural)

    def try_convert(self, val):
        return RegBox(self.inner.try_convert(val))

    def collect_errors(self, val):
        return self.inner.collect_errors(val)

    def into_data(self, val):
        return self.inner.into_data(val.v if isinstance(val, RegBox) else val)


_REG = {'on': False, 'defer': False, 'base': None}
_registered = [False]


def _registered_handler(ty, args, *, handlers):
    if not _REG['on'] or _REG['defer']:
        return NotImplemented
    if ty is RegBox:
        return RegBoxConv(make_converter(args[0] if args else t.Any, handlers))
    if ty is _REG['base']:
        return MarkConv('R')
    return NotImplemented


def ensure_registered():
    if not _registered[0]:
        register_converter_handler(_registered_handler)
        _registered[0] = True


TARGET = {  # target -> (type, base type handlers are keyed on, data value, typed value)
    'scalar': (int, int, 5, 5),
    'proto': (Proto, Proto, 'p', Proto('p')),
    'struct': (MyList, MyList, [1], MyList([1])),
    'plain': (Plain, Plain, 'q', Plain()),
    'param': (t.List[int], list, [1], [1]),
    'regparam': (RegBox[int], int, 5, RegBox(5)),     # local handlers are keyed on the ARGUMENT's type
}


def handlers_for(src: str, cfg: dict, base):
    defer = src in cfg['defer']

    def h(ty, args, *, handlers):
        if ty is base:
            if defer:
                return NotImplemented
            return MarkConv(src)
        return NotImplemented

    def never(ty, args, *, handlers):
        raise NotImplementedError      # the other documented way of deferring
    if cfg['form'] == 'callable':
        return h
    if cfg['form'] == 'seq':
        return [never, h]
    return {base: MarkConv(src)}


def shape_type(shape: str, X):
    return {'field': X, 'list': t.List[X], 'opt': t.Optional[X], 'dict': t.Dict[str, X], 'tuple': t.Tuple[int, X]}[shape]


def shape_wrap(shape: str, v):
    return {'field': v, 'list': [v], 'opt': v, 'dict': {'a': v}, 'tuple': (1, v)}[shape]


def shape_unwrap(shape: str, v):
    try:
        return {'field': lambda: v, 'list': lambda: v[0], 'opt': lambda: v, 'dict': lambda: v['a'], 'tuple': lambda: v[1]}[shape]()
    except Exception:  # noqa
        return v


def run_config(cfg: dict) -> str:
    X, base, xdata, xval = TARGET[cfg['target']]
    present = set(cfg['present'])
    _REG['on'] = 'R' in present
    _REG['defer'] = 'R' in cfg['defer']
    _REG['base'] = base
    try:
        make_converter.cache.clear()
    except Exception:  # noqa
        pass
    fty = shape_type(cfg['shape'], X)

    def kbody(ns):
        ns['__annotations__'] = {'f': fty}
        if 'F' in present:
            ns['f'] = pane.field(converter=MarkConv('F'))
    try:
        kkw = {'custom': handlers_for('C', cfg, base)} if 'C' in present else {}
        KB = types.new_class('KB', (pane.PaneBase,), kkw, kbody)
        K = (types.new_class('K', (KB,), {}, lambda ns: None) if cfg['inh'] == 'T'
             else types.new_class('K', (KB,), {'custom': ()}, lambda ns: None) if cfg['inh'] == 'X' else KB)
        okw = {'custom': handlers_for('E', cfg, base)} if 'E' in present else {}
        Outer = types.new_class('Outer', (pane.PaneBase,), okw, lambda ns: ns.update({'__annotations__': {'k': K}}))
        G = handlers_for('G', cfg, base) if 'G' in present else None
        if cfg['dir'] == 'from':
            r = pane.from_data({'k': {'f': shape_wrap(cfg['shape'], xdata)}}, Outer, custom=G)
            v = shape_unwrap(cfg['shape'], r.k.f)
            if isinstance(v, RegBox):
                v = v.v
            if isinstance(v, Mark):
                return v.src
            return 'B'
        x = Outer.make_unchecked(k=K.make_unchecked(f=shape_wrap(cfg['shape'], xval)))
        d = pane.into_data(x, Outer, custom=G)
        v = shape_unwrap(cfg['shape'], d['k']['f'])
        if isinstance(v, str) and v.startswith('into:'):
            return v[5:]
        return 'B'
    except TypeError:
        return 'none'
    except Exception as e:  # noqa
        return 'exc:' + type(e).__name__


def run(rep, tier: str) -> None:
    ensure_registered()
    res = engine.model_check('MC_Handlers', 'MC_Handlers.cfg', dump=True, facts=False)
    rep.add_mc(res, 'MC_Handlers.cfg')
    if res.violated:
        rep.witness({'clause': 'law-of-spec', 'type_kind': ','.join(res.violated), 'value_kind': ''}, {'tlc_output_tail': res.out[-3000:]})
        return
    cfgs = [st['cfg'] for st in engine.dump_states(res)]
    rep.exhaustive = True
    events = []
    for i, c in enumerate(cfgs, start=1):
        cfg = {**c, 'present': sorted(c['present']['$set']), 'defer': sorted(c['defer']['$set'])}
        events.append({'id': i, 'op': 'resolve', **cfg, 'got': run_config(cfg)})
    _REG['on'] = False
    try:
        make_converter.cache.clear()
    except Exception:  # noqa
        pass
    bad = engine.validate(events, module='PaneHandlersTrace', cfg='PaneHandlersTrace.cfg', name='c18')
    rep.validated += len(events)
    evd = {e['id']: e for e in events}
    for i, clauses in bad.items():
        e = evd[i]
        for cl in clauses:
            rep.witness({'clause': cl, 'type_kind': f"{e['target']}/{e['shape']}/{e['dir']}/{e['form']}/inh={e['inh']}",
                         'value_kind': 'present=' + ''.join(e['present']) + ' defer=' + ''.join(e['defer']), 'outcome': e['got']},
                        {'configuration': {k: v for k, v in e.items() if k not in ('id', 'op')}})
    rep.samples += [{k: v for k, v in evd[i].items() if k != 'id'} for i in list(evd)[:: max(1, len(evd) // 6)]][:6]
    rep.extra['replay'] = {'configurations': len(cfgs), 'rejected': len(bad)}
