"""Confirm a seeded breakage in a scratch worktree and keep it under /verif/seeded/<id>/.

usage: /venv/bin/python -m harness.seedkeep <seed dir> <property id> [--detected-by C01,C02] [--missed-by ...]

Confirms: the patch applies to /repo HEAD; the repository's test-suite still passes (218 passed,
only the 9 numpy tests of the baseline failing); the demonstration fails with the patch and passes
without it. Nothing is ever applied to /repo itself."""
from __future__ import annotations

import json
import os
import re
import shutil
import subprocess
import sys

VERIF = os.path.dirname(os.path.dirname(os.path.abspath(__file__)))
WT = '/tmp/wt-seedkeep'


def sh(cmd, **kw):
    return subprocess.run(cmd, capture_output=True, text=True, **kw)


def main():
    args = sys.argv[1:]
    seed, prop = args[0].rstrip('/'), args[1]
    det = args[args.index('--detected-by') + 1].split(',') if '--detected-by' in args else []
    mis = args[args.index('--missed-by') + 1].split(',') if '--missed-by' in args else []
    name = os.path.basename(seed)
    sh(['git', '-C', '/repo', 'worktree', 'remove', '--force', WT])
    r = sh(['git', '-C', '/repo', 'worktree', 'add', '-q', '--detach', WT, 'HEAD'])
    if r.returncode:
        print('cannot create worktree', r.stderr)
        return 2
    try:
        head = sh(['git', '-C', '/repo', 'rev-parse', '--short', 'HEAD']).stdout.strip()
        patch = os.path.join(seed, 'patch.diff')
        ap = sh(['git', '-C', WT, 'apply', '--3way', patch])
        if ap.returncode:
            ap = sh(['git', '-C', WT, 'apply', patch])
        if ap.returncode:
            print(f'{name}: patch does not apply to HEAD: {ap.stderr[-300:]}')
            return 1
        sh(['git', '-C', WT, 'reset', '-q'])
        rebased = sh(['git', '-C', WT, 'diff']).stdout
        t = sh(['/venv/bin/python', '-m', 'pytest', '-q', '-p', 'no:cacheprovider', '--timeout=900',
                '--continue-on-collection-errors'], cwd=WT)
        tail = t.stdout.strip().splitlines()[-1] if t.stdout.strip() else ''
        m = re.search(r'(\d+) failed, (\d+) passed', tail)
        failed_ids = set(re.findall(r'^FAILED (\S+)', t.stdout, re.M))
        tests_ok = bool(m) and m.group(2) == '218' and m.group(1) == '9' and all('test_numpy' in f for f in failed_ids)
        env = dict(os.environ, PYTHONPATH=WT)
        # the demonstrations assert that they import the scratch copy: point them at this worktree
        demo_src = re.sub(r'/tmp/wt-[A-Za-z0-9_-]+', WT, open(os.path.join(seed, 'demo.py')).read())
        demo = os.path.join(WT, '_demo.py')
        with open(demo, 'w') as f:
            f.write(demo_src)
        d1 = sh(['/venv/bin/python', demo], env=env, cwd=WT, timeout=600)
        sh(['git', '-C', WT, 'checkout', '--', '.'])
        d0 = sh(['/venv/bin/python', demo], env=env, cwd=WT, timeout=600)
        ok = tests_ok and d1.returncode != 0 and d0.returncode == 0
        print(f'{name}: tests_ok={tests_ok} ({tail}) demo_with_patch_exit={d1.returncode} demo_without_exit={d0.returncode} -> {"KEEP" if ok else "REJECT"}')
        if not ok:
            return 1
        dst = os.path.join(VERIF, 'seeded', name)
        os.makedirs(dst, exist_ok=True)
        with open(os.path.join(dst, 'patch.diff'), 'w') as f:
            f.write(rebased)
        with open(os.path.join(dst, 'demo.py'), 'w') as f:
            f.write(demo_src)
        notes = ''
        if os.path.exists(os.path.join(seed, 'notes.md')):
            shutil.copy(os.path.join(seed, 'notes.md'), os.path.join(dst, 'notes.md'))
            notes = open(os.path.join(seed, 'notes.md')).read()
        meta = {
            'id': name, 'breaks_property': prop, 'base_commit': head,
            'needs_to_manifest': _needs(notes),
            'confirmed': {
                'test_suite_with_patch': tail,
                'demo_with_patch': f'exit {d1.returncode}: ' + (d1.stdout + d1.stderr).strip().splitlines()[-1][:300] if (d1.stdout + d1.stderr).strip() else f'exit {d1.returncode}',
                'demo_without_patch': f'exit {d0.returncode}',
                'commands': [f'git -C /repo worktree add --detach {WT} HEAD   (HEAD = {head}); git -C {WT} apply patch.diff',
                             '/venv/bin/python -m pytest -q -p no:cacheprovider --timeout=900 --continue-on-collection-errors',
                             'PYTHONPATH=<worktree> /venv/bin/python demo.py   (fails)',
                             'git checkout -- . ; PYTHONPATH=<worktree> /venv/bin/python demo.py   (passes)'],
            },
            'source': 'independent sub-agent given only the property text' if not name.startswith('M-') else 'written by hand (reverse of a fix / targeted mutant)',
            'detected_by': det, 'missed_by': mis,
        }
        with open(os.path.join(dst, 'meta.json'), 'w') as f:
            json.dump(meta, f, indent=1)
        return 0
    finally:
        sh(['git', '-C', '/repo', 'worktree', 'remove', '--force', WT])


def _needs(notes: str) -> str:
    m = re.search(r'(?is)(trigger|needs|manifest)[^\n]*\n(.{0,600})', notes)
    txt = (m.group(0) if m else notes[:600]).strip()
    return re.sub(r'\s+', ' ', txt)[:700]


if __name__ == '__main__':
    sys.exit(main())
