"""C10 driver: behaviours of the cache model (spec/PaneCache.tla), produced by TLC simulation,
are replayed with REAL short-lived type objects, real threads and the real converter cache.
Every completed lookup is observed behaviourally (a battery of probe values through the returned
converter) and the recorded outcomes are validated by TLC against the history-free semantics."""
from __future__ import annotations

import gc
import glob
import os
import queue
import re
import subprocess
import sys
import threading
import time
import typing as t

import pane
from pane.convert import ConverterHandlers, make_converter
from pane.errors import ConvertError

from . import engine, tlc, vocab
from .conv import outcome
from .tlc import MachineryError, SPEC, JAR


class MyInt(int):
    pass


vocab.SUB_CLASSES['MyInt'] = MyInt
_STR_CONV = make_converter(str)


def h1(ty, args, *, handlers):
    if ty is MyInt:
        return _STR_CONV
    return NotImplemented


HANDLERS = {'h0': None, 'h1': h1}


class ClsCamel(pane.PaneBase, rename='camel'):
    ab_cd: int


# one handler function in two roles: h1 is a call-level handler (custom=h1) in some lookups and the class-level
# handler of an enclosing dataclass in others; the nested class has its own handler g, which the first overrides
# and the second does not
_FLOAT_CONV = make_converter(float)


def g2(ty, args, *, handlers):
    if ty is MyInt:
        return _FLOAT_CONV
    return NotImplemented


# the registry of global handlers is state as well: hR claims MyListR (otherwise an ordinary list subclass) once it
# has been registered with register_converter_handler (the Register action of spec/PaneCache.tla)
class MyListR(list):
    pass


vocab.SUB_CLASSES['MyListR'] = MyListR


def hR(ty, args, *, handlers):
    if ty is MyListR:
        return _STR_CONV
    return NotImplemented


def registered() -> int:
    pc = sys.modules['pane.convert']      # (the attribute pane.convert is the function of that name)
    return 1 if hR in pc._GLOBAL_HANDLERS else 0


def register_r() -> None:
    from pane.convert import register_converter_handler
    if not registered():
        register_converter_handler(hR)


def unregister_r() -> None:
    """back to the empty registry at the start of a behaviour (there is no public way to take a handler back)"""
    pc = sys.modules['pane.convert']      # (the attribute pane.convert is the function of that name)
    was = hR in pc._GLOBAL_HANDLERS
    while hR in pc._GLOBAL_HANDLERS:
        pc._GLOBAL_HANDLERS.remove(hR)
    if was:
        # taking a handler back is not something the library offers (registries only grow): whatever was memoized while
        # it was registered belongs to a world that no longer exists
        try:
            make_converter.cache.clear()
        except Exception:  # noqa
            pass


class InnerG(pane.PaneBase, custom=g2):
    x: MyInt


class OuterH1(pane.PaneBase, custom=h1):
    inner: InnerG
T_STR, T_INT, T_FLOAT = {'k': 'str'}, {'k': 'int'}, {'k': 'float'}
T_MY = {'k': 'sub', 'name': 'MyInt', 'base': T_INT}


def fresh_type(desc: str):
    """A NEW type object for the descriptor: nothing else references it."""
    if desc == 'ListStr':
        return list[str]
    if desc == 'DictStrFloat':
        return dict[str, float]
    if desc == 'TupIntStr':
        return (int, str)
    if desc == 'ListMy':
        return list[MyInt]
    if desc == 'SetInt':
        return set[int]
    if desc == 'StructAInt':
        return {'a': int}
    if desc == 'ClsCamel':
        return ClsCamel
    if desc == 'MyListR':
        return MyListR
    if desc == 'InnerG':
        return InnerG
    if desc == 'OuterH1':
        return OuterH1
    if desc == 'ListUIF':
        return list[t.Union[int, float]]
    if desc == 'ListUFI':
        return list[t.Union[float, int]]       # equal (==) to ListUIF as an alias, different in meaning
    if desc == 'ListLitFloat':
        return list[t.Union[t.Literal[1, 2], float]]
    raise KeyError(desc)


def abstract_type(desc: str, h: str, reg: int = 0) -> dict:
    if desc == 'MyListR':
        return T_STR if reg else {'k': 'sub', 'name': 'MyListR', 'base': {'k': 'list', 'e': {'k': 'any'}}}
    if desc == 'ListStr':
        return {'k': 'list', 'e': T_STR}
    if desc == 'DictStrFloat':
        return {'k': 'dict', 'kt': T_STR, 'vt': T_FLOAT}
    if desc == 'TupIntStr':
        return {'k': 'tuple', 'es': [T_INT, T_STR]}
    if desc == 'ListMy':
        return {'k': 'list', 'e': T_STR if h == 'h1' else T_MY}
    if desc == 'SetInt':
        return {'k': 'set', 'e': T_INT}
    if desc == 'StructAInt':
        return {'k': 'struct', 'fs': [['s_a', T_INT]]}
    if desc == 'ClsCamel':
        return {'k': 'cls', 'name': 'ClsCamel', 'fs': [{'n': 's_ab_cd', 't': T_INT, 'd': {'k': 'nodef', 'v': {'k': 'none'}}, 'kw': 'F',
                                                         'ins': ['s_abCd'], 'out': 's_abCd', 'ex': 'F', 'init': 'T'}],
                'inf': ['struct'], 'outf': 'struct', 'extra': 'F', 'hook': {'k': 'nohook'}}
    if desc in ('InnerG', 'OuterH1'):
        def cls(name, fname, ft):
            return {'k': 'cls', 'name': name, 'fs': [{'n': fname, 't': ft, 'd': {'k': 'nodef', 'v': {'k': 'none'}}, 'kw': 'F',
                                                      'ins': [fname], 'out': fname, 'ex': 'F', 'init': 'T'}],
                    'inf': ['struct'], 'outf': 'struct', 'extra': 'F', 'hook': {'k': 'nohook'}}
        inner = cls('InnerG', 's_x', T_STR if h == 'h1' else T_FLOAT)     # call-level h1 goes before the class' own g2
        return inner if desc == 'InnerG' else cls('OuterH1', 's_inner', inner)
    if desc == 'ListUIF':
        return {'k': 'list', 'e': {'k': 'union', 'alts': [T_INT, T_FLOAT]}}
    if desc == 'ListUFI':
        return {'k': 'list', 'e': {'k': 'union', 'alts': [T_FLOAT, T_INT]}}
    if desc == 'ListLitFloat':
        return {'k': 'list', 'e': {'k': 'union', 'alts': [{'k': 'lit', 'vs': [{'k': 'int', 'n': 1}, {'k': 'int', 'n': 2}]}, T_FLOAT]}}
    raise KeyError(desc)


PROBES = [['a', 'b'], {'abCd': 1}, [3], [1, 2], {'a': 1.5}, [3, 'x'], {'a': 1}, [1.5], [1], 'zz', [],
          {'x': 1.5}, {'x': 'zz'}, {'inner': {'x': 1.5}}, {'inner': {'x': 'zz'}}]


# ---------------------------------------------------------------------------------------
class Worker:
    """One in-flight make_converter call, stopped at the steps of the model."""
    def __init__(self, ctl, t, obj, hs):
        self.ctl, self.t, self.obj, self.hs = ctl, t, obj, hs
        self.go = threading.Semaphore(0)
        self.rep: queue.Queue = queue.Queue()
        self.state = 'new'
        self.result = None
        self.exc = None
        self.thread = threading.Thread(target=self._run, daemon=True)

    def _run(self):
        self.ctl.tl.worker = self
        self.ctl.tl.depth = 0
        try:
            self.result = make_converter(self.obj, ConverterHandlers.make(HANDLERS[self.hs]))
        except Exception as e:  # noqa
            self.exc = e
        finally:
            self.ctl.tl.worker = None
            self.rep.put('done')

    def pause(self, state):
        self.rep.put(state)
        self.go.acquire()

    def advance(self) -> str:
        self.go.release()
        try:
            self.state = self.rep.get(timeout=10)
        except queue.Empty:
            self.exc = TimeoutError('make_converter neither finished nor reached its next step')
            self.state = 'done'
        return self.state


class Controller:
    def __init__(self):
        self.tl = threading.local()
        self.kc = make_converter          # the KeyCache instance
        self.orig_key = self.kc.key_f
        self.orig_inner = self.kc.inner_f

        def key_f(*a, **k):
            w = getattr(self.tl, 'worker', None)
            key = self.orig_key(*a, **k)
            if w is not None and self.tl.depth == 0:
                w.pause('key')           # key computed, cache not yet probed
            return key

        def inner_f(*a, **k):
            w = getattr(self.tl, 'worker', None)
            if w is None:
                return self.orig_inner(*a, **k)
            top = self.tl.depth == 0
            if top:
                w.pause('miss')          # probe missed, build not started
            self.tl.depth += 1
            try:
                r = self.orig_inner(*a, **k)
            finally:
                self.tl.depth -= 1
            if top:
                w.pause('built')         # built, not yet stored
            return r
        self.kc.key_f = key_f
        self.kc.inner_f = inner_f

    def close(self):
        self.kc.key_f = self.orig_key
        self.kc.inner_f = self.orig_inner


_ACT = re.compile(r'<(Alloc|Drop|Call|Probe|Build|Store|Return)\(([^)]*)\)|<(Register) line')


def parse_behaviour(path: str) -> list:
    acts = []
    with open(path) as f:
        for m in _ACT.finditer(f.read()):
            if m.group(3):
                acts.append(('Register', []))
                continue
            args = [x.strip().strip('"') for x in m.group(2).split(',')]
            acts.append((m.group(1), args))
    return acts


def simulate(cfg: str, num: int, depth: int, seed: int) -> list:
    wd = tlc.workdir('c10-sim')
    for old in glob.glob(os.path.join(wd, 'tr_*')):
        os.remove(old)
    cmd = ['java', '-XX:+UseParallelGC', '-Xmx2g', '-cp', JAR, 'tlc2.TLC', '-simulate', f'file={wd}/tr,num={num}',
           '-depth', str(depth), '-workers', '1', '-seed', str(seed), '-metadir', os.path.join(wd, 'meta'),
           '-noGenerateSpecTE', '-deadlock', '-config', os.path.join(SPEC, cfg), os.path.join(SPEC, 'MC_Cache.tla')]
    p = subprocess.run(cmd, cwd=SPEC, stdout=subprocess.PIPE, stderr=subprocess.STDOUT, text=True, timeout=900)
    files = sorted(glob.glob(os.path.join(wd, 'tr_*')))
    if not files:
        raise MachineryError('TLC simulation produced no behaviours:\n' + p.stdout[-2000:])
    return [parse_behaviour(f) for f in files]


def replay(behaviours: list, stats: dict) -> tuple:
    """Returns (events, description per event id)."""
    ctl = Controller()
    events, desc = [], {}
    ident = 0
    id_history: dict = {}        # real id -> descriptor last seen there
    try:
        for bi, acts in enumerate(behaviours):
            objs: dict = {}      # model address -> [real object, descriptor]
            workers: dict = {}
            hist = []
            unregister_r()
            for name, args in acts:
                hist.append(f'{name}({",".join(args)})')
                if name == 'Register':
                    register_r()
                    stats['registrations'] = stats.get('registrations', 0) + 1
                elif name == 'Alloc':
                    a, d = args
                    o = fresh_type(d)
                    prev = id_history.get(id(o))
                    if prev is not None and prev != d:
                        stats['id_reused_for_other_type'] += 1
                    id_history[id(o)] = d
                    objs[a] = [o, d]
                    stats['allocs'] += 1
                elif name == 'Drop':
                    objs.pop(args[0], None)
                    stats['drops'] += 1
                    if stats['drops'] % 7 == 0:
                        gc.collect()
                elif name == 'Call':
                    t, a, h = args
                    if a not in objs or t in workers:
                        stats['drift'] += 1
                        continue
                    w = Worker(ctl, t, objs[a][0], h)
                    w.desc, w.h, w.reg0 = objs[a][1], h, registered()
                    workers[t] = w
                    w.thread.start()
                    w.state = w.rep.get(timeout=30)     # 'key'
                elif name in ('Probe', 'Build', 'Store'):
                    w = workers.get(args[0])
                    want = {'Probe': 'key', 'Build': 'miss', 'Store': 'built'}[name]
                    if w is None or w.state != want:
                        stats['drift'] += 1           # the real run took the other branch (hit / miss)
                        continue
                    w.advance()
                elif name == 'Return':
                    w = workers.pop(args[0], None)
                    if w is None:
                        stats['drift'] += 1
                        continue
                    while w.state != 'done':
                        w.advance()
                    w.thread.join(10)
                    ident = _observe(w, events, desc, ident, bi, hist, stats)
            for t, w in list(workers.items()):      # behaviours end mid-call: let the calls finish
                while w.state != 'done':
                    w.advance()
                w.thread.join(10)
                ident = _observe(w, events, desc, ident, bi, hist, stats)
            objs.clear()
    finally:
        ctl.close()
        unregister_r()
    return events, desc


def _observe(w, events, desc, ident, bi, hist, stats):
    stats['lookups'] += 1
    if registered() != w.reg0:
        # a handler was registered while the call was in flight: either registry may be the one it used
        stats['lookups_concurrent_with_registration'] = stats.get('lookups_concurrent_with_registration', 0) + 1
        return ident
    T = abstract_type(w.desc, w.h, w.reg0)
    if w.exc is not None:
        ident += 1
        events.append({'id': ident, 'op': 'from_data', 'ty': T, 'val': {'k': 'none'},
                       'out': {'k': 'exc', 'c': type(w.exc).__name__}, 'rerun': 'T'})
        desc[ident] = {'behaviour': bi, 'history': list(hist), 'type': w.desc, 'handlers': w.h, 'probe': None}
        return ident
    for p in PROBES:
        ident += 1
        events.append({'id': ident, 'op': 'from_data', 'ty': T, 'val': vocab.abstract(p),
                       'out': outcome(w.result.convert, p), 'rerun': 'T'})
        desc[ident] = {'behaviour': bi, 'history': list(hist), 'type': w.desc, 'handlers': w.h, 'probe': repr(p)}
    return ident


def sequential_histories(seed: int, n: int, length: int) -> tuple:
    """History independence at large (single thread): random build / convert / drop / collect over
    short-lived type objects, through the public from_data."""
    import random
    rnd = random.Random(seed)
    descs = ['ListStr', 'DictStrFloat', 'TupIntStr', 'ListMy', 'SetInt', 'StructAInt', 'ListUIF', 'ListUFI', 'ListLitFloat', 'ClsCamel', 'InnerG', 'OuterH1', 'MyListR']
    events, desc = [], {}
    ident = 10 ** 6
    stats = {'steps': 0, 'id_reused_for_other_type': 0}
    id_history: dict = {}
    for hi in range(n):
        held: list = []
        hist = []
        unregister_r()
        for _ in range(length):
            stats['steps'] += 1
            r = rnd.random()
            if r < 0.03 and not registered():
                register_r()
                hist.append('register the global handler')
                stats['registrations'] = stats.get('registrations', 0) + 1
            elif r < 0.45 or not held:
                d = rnd.choice(descs)
                o = fresh_type(d)
                prev = id_history.get(id(o))
                if prev is not None and prev != d:
                    stats['id_reused_for_other_type'] += 1
                id_history[id(o)] = d
                held.append((o, d))
                hist.append('build ' + d)
            elif r < 0.8:
                o, d = rnd.choice(held)
                h = rnd.choice(['h0', 'h0', 'h1'])
                p = rnd.choice(PROBES)
                ident += 1
                events.append({'id': ident, 'op': 'from_data', 'ty': abstract_type(d, h, registered()), 'val': vocab.abstract(p),
                               'out': outcome(pane.from_data, p, o, custom=HANDLERS[h]), 'rerun': 'T'})
                hist.append(f'convert {p!r} to {d} [{h}]')
                desc[ident] = {'behaviour': f'seq{hi}', 'history': list(hist), 'type': d, 'handlers': h, 'probe': repr(p)}
            elif r < 0.95:
                held.pop(rnd.randrange(len(held)))
                hist.append('drop')
            else:
                gc.collect()
                hist.append('collect')
        held.clear()
    unregister_r()
    return events, desc, stats


# ---------------------------------------------------------------------------------------
# part B: the LRU mode on a stand-alone KeyCache object
_LACT = re.compile(r'<LNext [^>]*>\s*\n\s*/?\\?\s*st = ')


def simulate_lru(maxsize: int, num: int, depth: int, seed: int) -> list:
    """Behaviours of PaneLRU as action lists, reconstructed from the successive states that the
    simulator prints (the action is the unique enabled step leading from one state to the next)."""
    wd = tlc.workdir(f'c10-lru-sim{maxsize}')
    for old in glob.glob(os.path.join(wd, 'tr_*')):
        os.remove(old)
    cmd = ['java', '-XX:+UseParallelGC', '-Xmx2g', '-cp', JAR, 'tlc2.TLC', '-simulate', f'file={wd}/tr,num={num}',
           '-depth', str(depth), '-workers', '1', '-seed', str(seed), '-metadir', os.path.join(wd, 'meta'),
           '-noGenerateSpecTE', '-deadlock', '-config', os.path.join(SPEC, f'MC_LRU_sim_{maxsize}.cfg'),
           os.path.join(SPEC, 'MC_LRU.tla')]
    p = subprocess.run(cmd, cwd=SPEC, stdout=subprocess.PIPE, stderr=subprocess.STDOUT, text=True, timeout=900)
    files = sorted(glob.glob(os.path.join(wd, 'tr_*')))
    if not files:
        raise MachineryError('TLC simulation of PaneLRU produced no behaviours:\n' + p.stdout[-2000:])
    from . import tlaval
    out = []
    for f in files:
        with open(f) as fh:
            txt = fh.read()
        states = [tlaval.parse(m.group(1)) for m in re.finditer(r'STATE_\d+ ==\s*\n?\s*(?:/\\ )?st = (.*?)(?=\n\nSTATE_|\n\n\\\*|\n=====|\Z)', txt, re.S)]
        acts = []
        for a, b in zip(states, states[1:]):
            act = _diff_action(a, b)
            if act is None:
                break
            acts.append(act)
        out.append(acts)
    return out


def _diff_action(a: dict, b: dict):
    """Which thread moved, and how (the model's pc values name the step)."""
    for t, (x, y) in enumerate(zip(a['th'], b['th']), start=1):
        if x != y:
            pc0, pc1 = x['pc'], y['pc']
            if pc0 == 'idle':
                return ('Call', t, y['k'])
            return ({'probe': 'Probe', 'compute': 'Compute', 'insert': 'Insert', 'done': 'Return'}[pc0], t, 0)
    return None


class LruWorker:
    def __init__(self, ctl, t, k):
        self.ctl, self.t, self.k = ctl, t, k
        self.go = threading.Semaphore(0)
        self.rep: queue.Queue = queue.Queue()
        self.state = 'new'
        self.res = 0
        self.exc = ''
        self.thread = threading.Thread(target=self._run, daemon=True)

    def _run(self):
        self.ctl.tl.worker = self
        try:
            self.res = self.ctl.kc(self.k)
        except Exception as e:  # noqa
            self.exc = type(e).__name__
        finally:
            self.ctl.tl.worker = None
            self.rep.put('done')

    def pause(self, state):
        self.rep.put(state)
        self.go.acquire()

    def advance(self):
        self.go.release()
        try:
            self.state = self.rep.get(timeout=5)
        except queue.Empty:
            self.exc = 'hang'          # the call under test neither finished nor reached its next step
            self.state = 'done'


class LruController:
    def __init__(self, maxsize: int):
        from pane.util import KeyCache
        self.tl = threading.local()
        self.calls = 0
        ctl = self

        def f(k):
            w = getattr(ctl.tl, 'worker', None)
            if w is not None:
                w.pause('compute')
            ctl.calls += 1
            r = 2 * k
            if w is not None:
                w.res_pending = r
                w.pause('insert' if maxsize != 0 else 'computed0')
            return r

        def key_f(k):
            w = getattr(ctl.tl, 'worker', None)
            if w is not None:
                w.pause('probe')
            return k
        self.kc = KeyCache(f, key_f, maxsize=maxsize)
        self.maxsize = maxsize

    def order(self) -> list:
        root = self.kc._root
        out, link, n = [], root[1], 0
        while link is not root and n < 1000:
            out.append(link[2])
            link = link[1]
            n += 1
        return out

    def snapshot(self, workers: dict, nthreads: int) -> dict:
        th = []
        for t in range(1, nthreads + 1):
            w = workers.get(t)
            if w is None:
                th.append({'pc': 'idle', 'k': 0, 'res': 0})
            else:
                pc = {'probe': 'probe', 'compute': 'compute', 'insert': 'insert', 'computed0': 'done', 'done': 'done'}[w.state]
                res = w.res if w.state == 'done' else getattr(w, 'res_pending', 0) if w.state in ('insert', 'computed0') else 0
                th.append({'pc': pc, 'k': w.k, 'res': res})
        order = self.order()
        keys = sorted(self.kc.cache.keys())
        return {'order': order, 'full': 'T' if self.kc.full else 'F', 'calls': self.calls, 'th': th,
                'dict_agrees': 'T' if keys == sorted(order) else 'F'}


def replay_lru(maxsize: int, behaviours: list, start_id: int) -> tuple:
    events, desc = [], {}
    ident = start_id
    for bi, acts in enumerate(behaviours):
        ctl = LruController(maxsize)
        workers: dict = {}
        ident += 1
        events.append({'id': ident, 'op': 'reset'})
        desc[ident] = {'behaviour': bi, 'history': []}
        hist = []
        for (name, t, k) in acts:
            hist.append(f'{name}({t},{k})')
            raised = ''
            if name == 'Call':
                w = LruWorker(ctl, t, k)
                workers[t] = w
                w.thread.start()
                w.state = w.rep.get(timeout=30)
                if ctl.maxsize == 0 and w.state == 'compute':
                    # a zero-sized cache may skip the key computation: the model's Probe step is then silent
                    w.skipped_probe = True
                    w.state = 'probe'
            elif name in ('Probe', 'Compute', 'Insert'):
                w = workers[t]
                if name == 'Probe' and getattr(w, 'skipped_probe', False):
                    w.state = 'compute'
                else:
                    w.advance()
                if w.state == 'computed0':
                    w.advance()          # nothing more to schedule for a zero-sized cache
                raised = w.exc
            elif name == 'Return':
                w = workers.pop(t)
                w.thread.join(2)
            ident += 1
            try:
                snap = ctl.snapshot(workers, 2)
            except Exception:  # noqa  (a corrupted list)
                snap = {'order': [], 'full': 'F', 'calls': 0, 'th': [{'pc': 'idle', 'k': 0, 'res': 0}] * 2, 'dict_agrees': 'F'}
                raised = raised or 'corrupt-structure'
            e = {'id': ident, 'op': 'step', 'a': name, 't': t, 'k': k, 'raised': raised, **snap}
            if snap['dict_agrees'] == 'F' and not raised:
                e['raised'] = 'dict-and-list-disagree'
            events.append(e)
            desc[ident] = {'behaviour': bi, 'history': list(hist), 'maxsize': maxsize}
            if raised:
                break
        for t, w in list(workers.items()):
            n = 0
            while w.state != 'done' and n < 10:
                w.advance()
                n += 1
    return events, desc, ident
