"""Seeded random (type, value) cases over the vocabulary, deeper and wider than the constants of the
exhaustive configs (code-to-spec direction: the recorded executions are validated by TLC).
No expected values here: types and values are generated syntactically; TLC is the oracle."""
from __future__ import annotations

import random

from . import vocab

SCALARS = ['none', 'bool', 'int', 'float', 'complex', 'str', 'bytes', 'bytearray', 'decimal', 'fraction', 'date', 'time',
           'datetime', 'path', 'pattern', 'patternb', 'any']
KEYABLE = ['int', 'str', 'float', 'bool', 'fraction', 'date', 'bytes', 'decimal']
ENUMS = [{'k': 'enum', 'name': 'Color', 'vs': [{'k': 'str', 's': 's_a'}, {'k': 'str', 's': 's_b'}]},
         {'k': 'enum', 'name': 'Num', 'vs': [{'k': 'int', 'n': 1}, {'k': 'int', 'n': 2}]},
         {'k': 'enum', 'name': 'Mixed', 'vs': [{'k': 'int', 'n': 1}, {'k': 'str', 's': 's_a'}]}]
SUBS = [{'k': 'sub', 'name': 'MyInt', 'base': {'k': 'int'}}, {'k': 'sub', 'name': 'MyStr', 'base': {'k': 'str'}}]
CONDS = [{'k': 'pos'}, {'k': 'neg'}, {'k': 'nonneg'}, {'k': 'finite'}, {'k': 'nonempty'}, {'k': 'empty'},
         {'k': 'ge', 'q': [0, 1]}, {'k': 'le', 'q': [3, 2]}, {'k': 'lenge', 'n': 1}, {'k': 'lenle', 'n': 2}, {'k': 'even'},
         {'k': 'uraise'}, {'k': 'utrue'}, {'k': 'not', 'c': {'k': 'pos'}},
         {'k': 'and', 'cs': [{'k': 'ge', 'q': [0, 1]}, {'k': 'le', 'q': [1, 1]}]}, {'k': 'or', 'cs': [{'k': 'neg'}, {'k': 'even'}]}]
NAMES = ['s_a', 's_b', 's_c', 's_x', 's_y', 's_z', 's_w']
_cls_counter = [0]


def num(q, sp='fin'):
    return {'q': q, 'sp': sp}


ATOMS = {
    'none': [{'k': 'none'}],
    'bool': [{'k': 'bool', 'b': 'T'}, {'k': 'bool', 'b': 'F'}],
    'int': [{'k': 'int', 'n': n} for n in (0, 1, 2, 5, -3, 7)],
    'float': [{'k': 'float', **num(q)} for q in ([3, 2], [2, 1], [-1, 2], [0, 1], [5, 1])] +
             [{'k': 'float', **num([0, 1], sp)} for sp in ('inf', 'ninf', 'nan', 'nzero')],
    'complex': [{'k': 'complex', 're': num([1, 1]), 'im': num([2, 1])}, {'k': 'complex', 're': num([5, 1]), 'im': num([0, 1])}],
    'str': [{'k': 'str', 's': s} for s in ('s_a', 's_b', 's_empty', 's_5', 's_dec', 's_frac', 's_frac0', 's_date', 's_time', 's_dt',
                                             's_path', 's_re', 's_badre', 's_ovre', 's_baddate', 's_nan', 's_uni', 's_ml', 's_ab', 's_zz')],
    'bytes': [{'k': 'bytes', 's': 'b_x', 'mut': 'F'}, {'k': 'bytes', 's': 'b_x', 'mut': 'T'}, {'k': 'bytes', 's': 'b_badre', 'mut': 'F'}],
    'bigint': [{'k': 'bigint', 'sign': 1}],
}
MEMBER_KINDS = {
    'none': ['none'], 'bool': ['bool'], 'int': ['int'], 'float': ['float', 'int'], 'complex': ['complex', 'float', 'int'],
    'str': ['str'], 'bytes': ['bytes'], 'bytearray': ['bytes'], 'decimal': ['int', 'float', 'str'], 'fraction': ['int', 'float', 'str'],
    'date': ['str'], 'time': ['str'], 'datetime': ['str'], 'path': ['str'], 'pattern': ['str'], 'patternb': ['bytes'],
    'any': ['none', 'bool', 'int', 'float', 'str'],
}
GOOD_STR = {'decimal': ['s_dec', 's_5', 's_nan'], 'fraction': ['s_frac', 's_5'], 'date': ['s_date'], 'time': ['s_time'],
            'datetime': ['s_dt', 's_date'], 'path': ['s_path', 's_a'], 'pattern': ['s_re', 's_a']}


def rand_type(rnd: random.Random, depth: int, hashable: bool = False) -> dict:
    if depth <= 0 or rnd.random() < 0.25:
        r = rnd.random()
        if hashable:
            return {'k': rnd.choice(KEYABLE)}
        if r < 0.7:
            return {'k': rnd.choice(SCALARS)}
        if r < 0.8:
            return rnd.choice(ENUMS)
        if r < 0.88:
            return rnd.choice(SUBS)
        return {'k': 'lit', 'vs': rnd.sample([{'k': 'str', 's': 's_a'}, {'k': 'int', 'n': 1}, {'k': 'none'}, {'k': 'bool', 'b': 'T'},
                                               {'k': 'str', 's': 's_b'}], rnd.randint(1, 3))}
    k = rnd.choice(['list', 'tuplevar', 'set', 'frozenset', 'deque', 'tuple', 'dict', 'defaultdict', 'ordereddict', 'counter',
                    'struct', 'union', 'union', 'ann', 'cls', 'cls', 'tagged'] if not hashable else ['tuple', 'frozenset', 'union', 'ann'])
    sub = lambda h=False: rand_type(rnd, depth - 1, h)  # noqa
    if k in ('list', 'tuplevar', 'deque'):
        return {'k': k, 'e': sub(hashable)}
    if k in ('set', 'frozenset'):
        return {'k': k, 'e': sub(True)}
    if k == 'tuple':
        return {'k': 'tuple', 'es': [sub(hashable) for _ in range(rnd.randint(0, 3))]}
    if k in ('dict', 'defaultdict', 'ordereddict'):
        return {'k': k, 'kt': sub(True), 'vt': sub()}
    if k == 'counter':
        return {'k': 'counter', 'kt': sub(True)}
    if k == 'struct':
        names = rnd.sample(NAMES, rnd.randint(1, 3))
        return {'k': 'struct', 'fs': [[n, sub()] for n in names]}
    if k == 'union':
        return {'k': 'union', 'alts': [sub(hashable) for _ in range(rnd.randint(2, 3))]}
    if k == 'ann':
        return {'k': 'ann', 't': sub(hashable), 'cs': rnd.sample(CONDS, rnd.randint(1, 2))}
    if k == 'cls':
        return rand_cls(rnd, depth - 1)
    if k == 'tagged':
        vs = []
        tags = rnd.sample(['s_v1', 's_v2', 's_v3'], rnd.randint(2, 3))
        for tg in tags:
            c = rand_cls(rnd, depth - 1, struct_only=True)
            tagf = {'n': 's_kind', 't': {'k': 'lit', 'vs': [{'k': 'str', 's': tg}]}, 'd': {'k': 'val', 'v': {'k': 'str', 's': tg}},
                    'kw': 'F', 'ins': ['s_kind'], 'out': 's_kind', 'ex': 'F', 'init': 'T'}
            c['fs'] = [f for f in c['fs'] if f['n'] != 's_kind']
            # the tag field has a default: it goes after the fields without one
            req = [f for f in c['fs'] if f['d']['k'] == 'nodef' and f['kw'] == 'F']
            rest = [f for f in c['fs'] if f not in req]
            c['fs'] = req + [tagf] + rest
            vs.append(c)
        return {'k': 'tagged', 'vars': vs, 'tag': 's_kind', 'tags': [{'k': 'str', 's': tg} for tg in tags],
                'lay': rnd.choice(['int', 'ext', 'adj']), 'tk': 's_t', 'ck': 's_c'}
    raise AssertionError(k)


def rand_cls(rnd: random.Random, depth: int, struct_only: bool = False) -> dict:
    _cls_counter[0] += 1
    names = rnd.sample([n for n in NAMES if n != 's_c' or True], rnd.randint(1, 3))
    aliases, used = ['s_v', 's_W', 's_X', 's_AbCd', 's_abCd', 's_ab_cd'], set()
    fs = []
    seen_default = False
    for n in names:
        T = rand_type(rnd, depth)
        kw = 'T' if rnd.random() < 0.15 else 'F'
        has_def = seen_default or rnd.random() < 0.4
        d = {'k': 'nodef', 'v': {'k': 'none'}}
        if has_def and kw == 'F':
            seen_default = True
        if has_def:
            m = member(rnd, T, 2)
            d = {'k': 'val', 'v': {'k': 'none'}} if m is None else {'k': 'unchecked', 'v': m}
        # naming: the Python name / the name plus an alias / explicit input names; the output name is an input name
        # most of the time (else the class does not read what it writes: outside the round-trip precondition)
        r = rnd.random()
        spare = [a for a in aliases if a not in used]
        if r < 0.7 or not spare:
            ins = [n]
        else:
            a1 = rnd.choice(spare)
            used.add(a1)
            ins = [n, a1] if r < 0.85 else [a1]
        r = rnd.random()
        out = (n if n in ins else ins[0]) if r < 0.75 else ins[-1] if r < 0.9 else vocab.tok('zz_' + vocab.text(n))
        fs.append({'n': n, 't': T, 'd': d, 'kw': kw, 'ins': ins, 'out': out, 'ex': 'F', 'init': 'T'})
    # defaults must be typed values: only keep defaults whose data form equals its image (scalars of the exact kind), else none-default
    for f in fs:
        if f['d']['k'] == 'unchecked':
            v = f['d']['v']
            ok = f['t']['k'] in ('int', 'str', 'bool', 'none') and v['k'] == f['t']['k']
            f['d'] = {'k': 'val', 'v': v} if ok else {'k': 'nodef', 'v': {'k': 'none'}}
        # default factories for container fields
        if f['d']['k'] == 'nodef' and f['t']['k'] in ('list', 'set') and rnd.random() < 0.5:
            f['d'] = {'k': 'fac', 'v': {'k': 'seq', 'f': 'list', 'xs': []} if f['t']['k'] == 'list' else {'k': 'set', 'f': 'set', 'es': []}}
        # a field with a default may be excluded from output, or not be an init field at all (then also excluded)
        if f['d']['k'] != 'nodef':
            r = rnd.random()
            if r < 0.1:
                f['ex'] = 'T'
            elif r < 0.18:
                f['ex'], f['init'] = 'T', 'F'
    # mandatory after optional is a definition error: order positional fields required-first
    pos = [f for f in fs if f['kw'] == 'F']
    kws = [f for f in fs if f['kw'] == 'T']
    pos.sort(key=lambda f: (f['d']['k'] != 'nodef'))
    inf = ['struct'] if (struct_only or rnd.random() < 0.5) else rnd.choice([['struct', 'tuple'], ['tuple']])
    if 'tuple' in inf and any(f['d']['k'] == 'nodef' for f in kws):
        inf = ['struct']
    outf = 'struct' if 'struct' in inf and rnd.random() < 0.7 else inf[-1]
    hook = {'k': 'nohook'}
    numeric = [f for f in fs if f['t']['k'] in ('int', 'float') and f['init'] == 'T']
    if numeric and rnd.random() < 0.12:
        hook = {'k': 'rejectif', 'f': rnd.choice(numeric)['n'], 'c': rnd.choice([{'k': 'neg'}, {'k': 'pos'}, {'k': 'ge', 'q': [5, 1]}])}
    return {'k': 'cls', 'name': f'RC{_cls_counter[0]}', 'fs': pos + kws, 'inf': inf, 'outf': outf,
            'extra': 'T' if rnd.random() < 0.2 else 'F', 'hook': hook}


def atom(rnd, kind):
    return rnd.choice(ATOMS[kind])


def arbitrary(rnd) -> dict:
    r = rnd.random()
    if r < 0.7:
        return atom(rnd, rnd.choice(list(ATOMS)))
    if r < 0.85:
        return {'k': 'seq', 'f': rnd.choice(['list', 'tuple', 'other']), 'xs': [atom(rnd, rnd.choice(['int', 'str'])) for _ in range(rnd.randint(0, 2))]}
    return {'k': 'map', 'f': rnd.choice(['dict', 'proxy']), 'ps': [[{'k': 'str', 's': 's_a'}, atom(rnd, 'int')]][:rnd.randint(0, 1)]}


def keyable(v) -> bool:
    if v['k'] == 'bytes':
        return v['mut'] == 'F'
    if v['k'] == 'seq':
        return v['f'] == 'tuple' and all(keyable(x) for x in v['xs'])
    return v['k'] != 'map'


def member(rnd, T, fuel: int = 4):
    """A value built to fit T structurally (no guarantee: conditions, hashability, collisions)."""
    k = T['k']
    if k in MEMBER_KINDS:
        vk = rnd.choice(MEMBER_KINDS[k])
        if vk == 'str' and k in GOOD_STR:
            return {'k': 'str', 's': rnd.choice(GOOD_STR[k])}
        if k == 'patternb':
            return {'k': 'bytes', 's': 'b_x', 'mut': 'F'}
        return atom(rnd, vk)
    if fuel <= 0:
        return arbitrary(rnd)
    if k in ('list', 'tuplevar', 'set', 'frozenset', 'deque'):
        return {'k': 'seq', 'f': rnd.choice(['list', 'list', 'tuple']), 'xs': [member(rnd, T['e'], fuel - 1) for _ in range(rnd.randint(0, 3))]}
    if k == 'tuple':
        return {'k': 'seq', 'f': rnd.choice(['list', 'tuple']), 'xs': [member(rnd, e, fuel - 1) for e in T['es']]}
    if k in ('dict', 'defaultdict', 'ordereddict', 'counter'):
        ps, seen = [], []
        for _ in range(rnd.randint(0, 2)):
            key = member(rnd, T['kt'], fuel - 1)
            if not keyable(key) or any(_pyeq_guess(key, s) for s in seen):
                continue
            seen.append(key)
            ps.append([key, atom(rnd, 'int') if k == 'counter' else member(rnd, T['vt'], fuel - 1)])
        return {'k': 'map', 'f': 'dict', 'ps': ps}
    if k == 'struct':
        return {'k': 'map', 'f': 'dict', 'ps': [[{'k': 'str', 's': f[0]}, member(rnd, f[1], fuel - 1)] for f in T['fs']]}
    if k == 'union':
        return member(rnd, rnd.choice(T['alts']), fuel - 1)
    if k in ('lit', 'enum'):
        return rnd.choice(T['vs'])
    if k == 'ann':
        return member(rnd, T['t'], fuel)
    if k == 'sub':
        return member(rnd, T['base'], fuel)
    if k == 'cls':
        if 'struct' in T['inf'] and (rnd.random() < 0.7 or 'tuple' not in T['inf']):
            ps = []
            for f in T['fs']:
                if f.get('init', 'T') == 'F':
                    continue
                if f['d']['k'] == 'nodef' or rnd.random() < 0.5:
                    ps.append([{'k': 'str', 's': rnd.choice(f['ins'])}, member(rnd, f['t'], fuel - 1)])
            return {'k': 'map', 'f': 'dict', 'ps': ps}
        pos = [f for f in T['fs'] if f['kw'] == 'F' and f.get('init', 'T') == 'T']
        n = len([f for f in pos if f['d']['k'] == 'nodef'])
        n = rnd.randint(n, len(pos))
        return {'k': 'seq', 'f': rnd.choice(['list', 'tuple']), 'xs': [member(rnd, f['t'], fuel - 1) for f in pos[:n]]}
    if k == 'tagged':
        i = rnd.randrange(len(T['vars']))
        body = member(rnd, T['vars'][i], fuel - 1)
        tag = T['tags'][i]
        if T['lay'] == 'int':
            if body['k'] != 'map':
                return body
            return {'k': 'map', 'f': 'dict', 'ps': [[{'k': 'str', 's': T['tag']}, tag]] + [p for p in body['ps'] if p[0] != {'k': 'str', 's': T['tag']}]}
        if T['lay'] == 'ext':
            return {'k': 'map', 'f': 'dict', 'ps': [[tag, body]]}
        return {'k': 'map', 'f': 'dict', 'ps': [[{'k': 'str', 's': T['tk']}, tag], [{'k': 'str', 's': T['ck']}, body]]}
    return arbitrary(rnd)


def _pyeq_guess(a, b) -> bool:
    """conservative: could Python consider the two keys equal (then do not put both in a dict literal)"""
    numeric = {'bool', 'int', 'float', 'complex', 'bigint'}
    if a['k'] in numeric and b['k'] in numeric:
        return True if a['k'] != b['k'] else a == b or (a['k'] == 'float' and a.get('sp') in ('fin', 'nzero') and b.get('sp') in ('fin', 'nzero') and a['q'][0] == 0 == b['q'][0])
    if a['k'] == b['k'] == 'bytes':
        return a['s'] == b['s']
    return a == b


def perturb(rnd, v, fuel: int = 4):
    """replace one position of v by something arbitrary"""
    if fuel <= 0 or rnd.random() < 0.3:
        return arbitrary(rnd)
    if v['k'] == 'seq' and v['xs']:
        i = rnd.randrange(len(v['xs']))
        r = rnd.random()
        if r < 0.15:
            return {**v, 'xs': v['xs'][:i] + v['xs'][i + 1:]}
        if r < 0.3:
            return {**v, 'xs': v['xs'] + [arbitrary(rnd)]}
        return {**v, 'xs': v['xs'][:i] + [perturb(rnd, v['xs'][i], fuel - 1)] + v['xs'][i + 1:]}
    if v['k'] == 'map' and v['ps']:
        i = rnd.randrange(len(v['ps']))
        r = rnd.random()
        if r < 0.15:
            return {**v, 'ps': v['ps'][:i] + v['ps'][i + 1:]}
        if r < 0.3 and not any(p[0] == {'k': 'str', 's': 's_zz'} for p in v['ps']):
            return {**v, 'ps': v['ps'] + [[{'k': 'str', 's': 's_zz'}, arbitrary(rnd)]]}
        return {**v, 'ps': v['ps'][:i] + [[v['ps'][i][0], perturb(rnd, v['ps'][i][1], fuel - 1)]] + v['ps'][i + 1:]}
    return arbitrary(rnd)


def cases(seed: int, n: int, depth: int = 4) -> list:
    rnd = random.Random(seed)
    out = []
    while len(out) < n:
        T = rand_type(rnd, rnd.randint(1, depth))
        for _ in range(4):
            v = member(rnd, T)
            out.append((T, v, rnd.randrange(6)))
            out.append((T, perturb(rnd, v), rnd.randrange(6)))
        out.append((T, arbitrary(rnd), 0))
    return out[:n]
