"""Self-validation: apply one seeded breakage to /repo, run the named checks, undo it.

usage: /venv/bin/python -m harness.seedtest <seed dir> <check id> [<check id> ...] [--tier quick]
Prints, per check, DETECTED (exit 1 with VIOLATION) / MISSED (exit 0) / BROKEN (exit 2)."""
from __future__ import annotations

import os
import subprocess
import sys

VERIF = os.path.dirname(os.path.dirname(os.path.abspath(__file__)))


def main():
    args = [a for a in sys.argv[1:] if not a.startswith('--')]
    tier = 'quick'
    if '--tier' in sys.argv:
        tier = sys.argv[sys.argv.index('--tier') + 1]
        args = [a for a in args if a != tier]
    seed, checks = args[0], args[1:]
    patch = os.path.join(seed, 'patch.diff')
    st = subprocess.run(['git', '-C', '/repo', 'status', '--porcelain', '--untracked-files=no'], capture_output=True, text=True)
    if st.stdout.strip():
        print('refusing: /repo has uncommitted changes')
        return 2
    ap = subprocess.run(['git', '-C', '/repo', 'apply', '--3way', patch], capture_output=True, text=True)
    if ap.returncode != 0:
        ap = subprocess.run(['git', '-C', '/repo', 'apply', patch], capture_output=True, text=True)
    if ap.returncode != 0:
        print('patch does not apply:', ap.stderr[-500:])
        subprocess.run(['git', '-C', '/repo', 'checkout', '--', '.'])
        subprocess.run(['git', '-C', '/repo', 'reset', '-q'])
        return 2
    results = {}
    try:
        for c in checks:
            p = subprocess.run([os.path.join(VERIF, 'check'), c, '--tier', tier], capture_output=True, text=True, cwd=VERIF)
            viol = [ln for ln in p.stdout.splitlines() if ln.startswith('VIOLATION')]
            sigs = sorted({ln.strip() for ln in p.stdout.splitlines() if ln.strip().startswith('signature:')})
            if p.returncode == 1 and viol:
                results[c] = 'DETECTED'
            elif p.returncode == 0:
                results[c] = 'MISSED'
            else:
                results[c] = f'BROKEN(exit {p.returncode})'
            print(f'{os.path.basename(seed.rstrip("/"))} {c}: {results[c]}  ({len(viol)} violation lines)')
            for s in sigs[:6]:
                print('    ', s[:200])
            if results[c].startswith('BROKEN'):
                print(p.stdout[-1500:], p.stderr[-1500:])
    finally:
        subprocess.run(['git', '-C', '/repo', 'reset', '-q'])
        subprocess.run(['git', '-C', '/repo', 'checkout', '--', '.'])
    return 0


if __name__ == '__main__':
    sys.exit(main())
