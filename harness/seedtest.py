"""Self-validation: run checks against one seeded breakage.

The patch is applied to a scratch worktree of /repo under /tmp (never to /repo itself); the checks
are pointed at it with PANE_VERIF_REPO and write their evidence / replays into a scratch directory.

usage: /venv/bin/python -m harness.seedtest <seed dir> <check id> [<check id> ...] [--tier quick]
Prints, per check, DETECTED (exit 1 with VIOLATION) / MISSED (exit 0) / BROKEN (exit 2)."""
from __future__ import annotations

import os
import shutil
import subprocess
import sys

VERIF = os.path.dirname(os.path.dirname(os.path.abspath(__file__)))


def main():
    args = [a for a in sys.argv[1:] if not a.startswith('--')]
    tier = 'quick'
    if '--tier' in sys.argv:
        tier = sys.argv[sys.argv.index('--tier') + 1]
        args = [a for a in args if a != tier]
    seed, checks = os.path.abspath(args[0]), args[1:]
    patch = os.path.join(seed, 'patch.diff')
    name = os.path.basename(seed.rstrip('/'))
    wt = f'/tmp/seedwt-{name}-{os.getpid()}'
    scratch = f'/tmp/seedev-{name}-{os.getpid()}'
    subprocess.run(['git', '-C', '/repo', 'worktree', 'add', '--detach', '-q', wt, 'HEAD'], check=True)
    try:
        ap = subprocess.run(['git', '-C', wt, 'apply', patch], capture_output=True, text=True)
        if ap.returncode != 0:
            ap = subprocess.run(['git', '-C', wt, 'apply', '--3way', patch], capture_output=True, text=True)
        if ap.returncode != 0:
            print('patch does not apply:', ap.stderr[-500:])
            return 2
        os.makedirs(scratch, exist_ok=True)
        env = dict(os.environ, PANE_VERIF_REPO=wt, PANE_VERIF_EVIDENCE=os.path.join(scratch, 'evidence'),
                   PANE_VERIF_REPLAYS=os.path.join(scratch, 'replays'))
        os.makedirs(env['PANE_VERIF_EVIDENCE'], exist_ok=True)
        for c in checks:
            p = subprocess.run([os.path.join(VERIF, 'check'), c, '--tier', tier], capture_output=True, text=True, cwd=VERIF, env=env)
            viol = [ln for ln in p.stdout.splitlines() if ln.startswith('VIOLATION')]
            sigs = sorted({ln.strip() for ln in p.stdout.splitlines() if ln.strip().startswith('signature:')})
            res = 'DETECTED' if p.returncode == 1 and viol else 'MISSED' if p.returncode == 0 else f'BROKEN(exit {p.returncode})'
            print(f'{name} {c}: {res}  ({len(viol)} violation lines)', flush=True)
            for s in sigs[:6]:
                print('    ', s[:200])
            if res.startswith('BROKEN'):
                print(p.stdout[-1500:], p.stderr[-1500:])
    finally:
        subprocess.run(['git', '-C', '/repo', 'worktree', 'remove', '--force', wt])
        shutil.rmtree(scratch, ignore_errors=True)
    return 0


if __name__ == '__main__':
    sys.exit(main())
