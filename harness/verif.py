"""./check <property-id> [--tier quick|thorough] [--replay path]

Exit codes: 0 the property held on everything explored (known findings are echoed);
1 with `VIOLATION property=<id> replay=<path>`; 2 machinery failure (never a VIOLATION line)."""
from __future__ import annotations

import argparse
import os
import sys
import traceback

HERE = os.path.dirname(os.path.abspath(__file__))
VERIF = os.path.dirname(HERE)
sys.path.insert(0, VERIF)
REPO = os.environ.get('PANE_VERIF_REPO', '/repo')   # (background sweeps may point this at a snapshot of /repo)
sys.path.insert(0, REPO)
os.environ.setdefault('PYTHONHASHSEED', '0')


def main() -> int:
    ap = argparse.ArgumentParser()
    ap.add_argument('prop', nargs='?')
    ap.add_argument('--tier', default=os.environ.get('VERIF_TIER', 'quick'), choices=['quick', 'thorough'])
    ap.add_argument('--replay')
    ap.add_argument('--selftest-setup', action='store_true')
    a = ap.parse_args()
    from harness import tlc
    from harness.tlc import MachineryError
    try:
        if a.selftest_setup:
            from harness import checks
            return checks.setup()
        if not a.prop:
            ap.error('property id required')
        from harness import checks
        if a.replay:
            return checks.replay(a.prop, a.replay)
        fn = checks.REGISTRY.get(a.prop)
        if fn is None:
            print(f'no check registered for {a.prop}', file=sys.stderr)
            return 2
        return fn(a.tier)
    except MachineryError as e:
        print(f'MACHINERY-FAILURE: {e}', file=sys.stderr)
        return 2
    except Exception:
        traceback.print_exc()
        print('MACHINERY-FAILURE: unexpected exception in the harness', file=sys.stderr)
        return 2
    finally:
        tlc.cleanup()


if __name__ == '__main__':
    sys.exit(main())
