"""Regenerates /verif/MANIFEST.json from the table below (run: /venv/bin/python -m harness.manifest_gen)."""
from __future__ import annotations

import json
import os

VERIF = os.path.dirname(os.path.dirname(os.path.abspath(__file__)))

TRUST = ('Trusted base: TLC; the projection/concretisation functions in harness/vocab.py; the standard library '
         '(string facts are computed by calling it directly); small-scope bounds stated in the evidence file.')

# property -> (technique, level text, design ref)
CHECKS = {
    'C01': ('TLA+ semantics (PaneSem) + TLC exhaustive grammar exploration (PaneGrammar) replayed into from_data, '
            'recorded outcomes validated by TLC trace spec (PaneTrace)',
            'TLC enumerates every type of depth <= 2 (quick: reduced outer constructors; thorough: all) over the core '
            'leaf kinds with members, near-members and an arbitrary pool as a state graph, checks laws of the semantics '
            'as invariants, and every case is executed in the real code in several spellings; TLC decides each recorded '
            'outcome (verdict and exactly-typed image) against the three-valued semantics. Randomised deeper traces extend '
            'past the bound.', 'section 7 C01'),
    'C03': ('TLC-enumerated (type, value) cases replayed through try_convert / collect_errors / convert separately, for the '
            'case and every sub-case; recorded pass outcomes validated by the TLC trace spec (clause PassesFails)',
            'Every case of the exhaustive grammar universe (and, for rejected ones, every structural sub-case) is run through '
            'the two passes of the documented extension interface separately and through convert(); TLC checks '
            'fast-interrupts <=> diagnostic-tree, no internal RuntimeError, ConvertError carries a tree, neither pass raises.',
            'section 7 C03'),
    'C05': ('TLC-enumerated cases: from_data -> into_data -> from_data -> into_data executed in the real code; TLC decides '
            'IsData, SerOK (relational serialisation semantics), x2 = x, d2 = d up to set order',
            'Exhaustive within the grammar bound; the serialised form is checked against the relational semantics SerOK of '
            'PaneSem, the re-parse against the image, the re-serialisation up to set ordering, only for values whose image '
            'the semantics fixes (verdict A). Includes the shipped helper types pane.types.Range / ValueOrList (RangeHook, vol), '
            'method spellings (x.into_data()), and a seeded random stage.', 'section 7 C05'),
    'C06': ('TLC-enumerated cases: convert(x, T) on the converted value, on an equal natively rebuilt object, and '
            'convert(convert(v)); TLC compares with the image of the semantics under Python equality',
            'Exhaustive within the grammar bound; x ranges over images produced by conversion and over equal objects rebuilt '
            'with ordinary Python constructors (Fraction, Decimal, date, set, deque, enum members, dataclass instances ...); '
            'types that do not read their own serialised form (externally/adjacently tagged unions anywhere inside) are outside, '
            'as the statement says; shipped helper types and Cls.from_obj included; seeded random stage.',
            'section 7 C06'),
    'C09': ('TLC-enumerated cases; deep identity+content snapshot of the argument before/after from_data; event validated by '
            'the TLC trace spec', 'Exhaustive within the grammar bound, both verdicts; the snapshot records the identity and '
            'contents of every container reachable from the argument.', 'section 7 C09'),
    'C02': ('TLC-enumerated kind matrix (value kind x target kind x embedding context) replayed into from_data; verdict and '
            'widening image decided by the TLC trace spec against PaneSem',
            'Every cell of the matrix (16 atom payloads of 12 value kinds + containers incl. other-Sequence and proxy Mapping) x 41 '
            'target kinds x 11 embedding contexts (thorough: context paths of length 2) is a TLC state and is executed; '
            'must-reject cells and the three lossless widenings are judged by the three-valued kind matrix of PaneSem.',
            'section 7 C02'),
    'C04': ('TLC-enumerated adversarial universes (raising stdlib constructors, unhashable images, raising predicates/hooks, '
            'odd tags) + catalogue of unsupported type expressions; escaping exception class decided by the TLC trace spec',
            'Exhaustive over the exc/scalar/tagged/cond universes within their depth bound: every outcome must be ok or '
            'ConvertError; building a converter (with no data in hand) for every generated documented type must succeed and '
            'for 23 unsupported expressions must fail with TypeError/UnsupportedAnnotation.', 'section 7 C04'),
    'C11': ('TLC-enumerated ordered pairs of overlapping member types (19 quick / 29 thorough members) x overlap values, '
            'both directions; left-most-member law checked as TLC invariant on PaneSem and on the real code via trace validation',
            'All ordered pairs of the member pool (thorough: additionally nested/flattened/Optional/container contexts); '
            'from_data outcome must be the image of the left-most accepting member, into_data must be produced by some member.',
            'section 7 C11'),
    'C12': ('TLC-enumerated tagged-union universe (5 variant sets x 3 layouts x tag values of every kind x bodies of every '
            'variant) replayed: verdict/image, tag named in the message, round trip, duplicate tags refused at build',
            'Exhaustive within the universe; the variant is decided by TagExtract/TagVariant of PaneSem (tag alone), bodies '
            'valid for another variant included; layout symmetry by SerOK + re-parse.', 'section 7 C12'),
    'C13': ('TLC-enumerated condition expressions (stock conditions, combinators depth <= 2, several per annotation) x inner '
            'types x boundary values; three-valued Holds (T/F/raises, Python short-circuit order) in PaneSem decides',
            'Exhaustive within the universe: 15 base conditions, not/and/or combinations, nested expressions with equal names, '
            'values at threshold-1/2, threshold, threshold+1/2, lengths 0..3, inf/nan/-0.0, raising predicates.', 'section 7 C13'),
    'C07': ('TLC-enumerated rejected cases; the recorded ConvertError.tree (and the stand-alone trees of the structural '
            'children) validated by the TLC trace spec against the tree algebra TreeBad of PaneErrors.tla',
            'For every rejected case of the scalar/cls/tagged/union/cond universes TLC checks: node kinds mirror the type, '
            'product children keyed by exactly the elements the semantics rejects on their own, missing/extra sets, one sum '
            'child per (flattened) member in order, tagged unions report the chosen variant only, every leaf records the '
            'offending sub-value, children equal the stand-alone trees.', 'section 7 C07'),
    'C08': ('TLC-enumerated rejected cases; str(error) rendered; Python reports only substring offsets, TLC computes the '
            'ordered obligations Needs(tree) and decides completeness by greedy matching',
            'Rendering never raises, is stable (twice, and for an independent second failure), and contains in nesting order '
            'every path component, leaf expectation, offending value, cause message, missing/unexpected/duplicate field.',
            'section 7 C08'),
    'C10': ('explicit TLA+ state machines of the converter cache (heap of addresses, liveness, pins, 4-step lookups by 2 '
            'threads: PaneCache.tla) and of the LRU mode (PaneLRU.tla), TLC exhaustive; TLC-simulated behaviours replayed with '
            'real short-lived type objects / threads / a real KeyCache; recorded outcomes and recorded LRU states validated by TLC',
            'Design level: Transparent/CacheSound hold for the pinned design on all interleavings within the bound, and TLC must '
            'find the id-reuse counterexample for the unpinned design (cross-check that the model understands the defect). '
            'Code level: histories with real del/gc and address reuse, every completed lookup probed behaviourally and judged by '
            'the history-free semantics; LRU: after every step the recency list, full flag, call count and results of the real '
            'object are compared with the model step function. The registry of global handlers is state of the model too (reg, '
            'action Register, three designs): TLC must refute a cache that ignores registrations and one that is emptied by them, '
            'and accepts the registry size in the key; Register is replayed with register_converter_handler(); an inductive '
            'invariant of the repaired design incl. the registry is discharged by Apalache for unbounded histories.', 'section 7 C10'),
    'C20': ('explicit TLA+ spec of the five styles (Canon) and a model of the shipped splitter/joiners (PaneRename.tla), TLC '
            'exhaustive over all identifiers in the bound; every enumerated name plus seeded random longer ones replayed through '
            'rename_field and class-level rename=, results validated by the TLC trace spec',
            'Canonical spelling, idempotence, recovery by snake, injectivity (left inverse) for all identifiers of 1-3 words of '
            '2-3 letters over a 2-letter alphabet (thorough: 1-2 words, 2-4 letters, 3 letters), all strings up to length 5/6 '
            'over {a,b,_,-} for refusal of unsplittable names, 4k/60k random identifiers up to 6 words x 12 letters.',
            'section 7 C20'),
    'C14': ('TLC-enumerated constructions (class x subset of supplied fields x positional split x constructor x one odd '
            'value) and data-path cases replayed; instance, set-field record, hook runs, identity of default products recorded '
            'and validated by the TLC trace spec (PaneClasses.tla ConstructFails, stateful identity set)',
            'Exhaustive within the class family: every subset of init fields supplied, by keyword and by every admissible '
            'positional prefix, through Cls(...) and make_unchecked, plus mapping/sequence data paths; TLC decides signature '
            'binding, per-argument conversion as from_data, defaults, fresh unshared factory products, exact set-record, '
            'verbatim storage, one hook run per instance, hook failure class per path.', 'section 7 C14'),
    'C15': ('TLA+ naming rules (NameIns/NameOut over class and field spellings) generate 456 (thorough 864) class '
            'configurations; each is written in Python as spelled, TLC-enumerated mappings/sequences (every input name, aliases, '
            'duplicates, Python-name and output-name keys, unknown keys, missing fields, wrong lengths, str/bytes) replayed; '
            'verdict/image, output layout and names (SerOK), re-parse and error-tree missing/extra/duplicate validated by TLC',
            'Exhaustive over the decision table x naming configurations within the two/three-field class family.',
            'section 7 C15'),
    'C16': ('explicit TLA+ model of equality / order / hash rule table / frozen / copy / repr over the option cube '
            '(PaneValue.tla), algebraic laws checked by TLC on the model for all instance triples; every cube point generated as '
            'a real class, all observers executed on real instances, observations validated by the TLC trace spec',
            '2^6 option points x 4 per-field flag patterns x instance pairs over 0..2 (same class, other parameterisation of a '
            'generic, other class, identical object): ==, !=, the four ordering methods (NotImplemented included), hash / '
            'unhashable per the stdlib table, equal => equal hash, frozen assignment, deletion, set-record on assignment, '
            'copy / deepcopy / __replace__ (value, set-record, new object, hook runs, re-validation), repr fields.', 'section 7 C16'),
    'C17': ('explicit TLA+ class rules over hierarchy programs (PaneProgram.tla: MRO merge with in-place override, inherited '
            'defaults, keyword-only partition, type-parameter bookkeeping, substitution, option inheritance); TLC enumerates all '
            'programs of the production rules (MC_Program.tla) and checks laws; every program is defined for real, its definition '
            'outcome, signature, repr order, frozenness, parameters, subscriptions and conversions are validated by the TLC trace spec',
            'All programs of depth <= 2 (quick, ~11k) / 3 (thorough, ~100k): generic bases bound, forwarded, renamed, swapped, '
            're-declared, bound to unions and under Annotated; overriding with and without defaults; markers, per-field and '
            'class-level keyword-only; option sets per level.', 'section 7 C17'),
    'C18': ('explicit TLA+ model of handler resolution (PaneHandlers.tla: sources F G C/CI E P R B, forms, deferral, target '
            'kinds, shapes, directions), all 17.7k configurations enumerated by TLC with laws; each configuration built for real '
            'with marker converters, the converter actually used read off the result and validated by the TLC trace spec',
            'Exhaustive over subsets of the five handler sources x deferring subsets x callable / sequence / mapping form x '
            '{scalar, protocol class, list subclass, class without converter, List[int]} x {field, List, Optional, Dict value, '
            'tuple slot} x {from_data, into_data} x class handlers own / inherited, below a nested dataclass.', 'section 7 C18'),
    'C19': ('explicit TLA+ state machine of stores, caller streams and library handles (PaneIO.tla) with ownership '
            'invariants, TLC exhaustive; TLC-simulated behaviours executed on real files / StringIO / text file objects with `open` '
            'shadowed in pane.io, recorded steps validated by the stateful TLC trace spec; TLC-enumerated typed values written and '
            'read back through every sink kind and the option universes (JsonOpts, YamlOpts) printed by TLC',
            'Ownership (library handles closed and UTF-8, caller streams left open, one open per path call), one value per YAML '
            'document incl. null documents, and read-back equality under Python == for every JSON/YAML representable typed value '
            'of the io universe (awkward texts: non-ASCII, astral, multi-line, padded, yes/null/~/1e3/date-like) with 6 JSON and '
            '768 YAML option sets and 5 sink kinds in rotation.', 'section 7 C19'),
}

NOT_YET = 'check not built yet (work in progress; see DESIGN.md section 12 build order)'


def main():
    props = [json.loads(l) for l in open(os.path.join(VERIF, 'properties.jsonl'))]
    checks = []
    na = []
    for p in props:
        pid = p['id']
        if pid in CHECKS:
            tech, text, ref = CHECKS[pid]
            checks.append({
                'property_id': pid,
                'quick_cmd': f'./check {pid} --tier quick',
                'thorough_cmd': f'./check {pid} --tier thorough',
                'evidence_file': f'evidence/{pid}.json',
                'replay_cmd_template': f'./check {pid} --replay {{path}}',
                'engine': 'tlc',
                'level_claimed': {'category': 'model_checking', 'text': text, 'design_ref': 'DESIGN.md ' + ref},
                'level_note': TRUST,
                'technique': tech,
            })
        else:
            na.append({'property_id': pid, 'reason': NOT_YET})
    m = {
        'version': 1,
        'setup_cmd': '/venv/bin/python -m compileall -q harness && ./check --selftest-setup',
        'hooks': {
            'guard': 'PANE_VERIF',
            'enable': 'no source hooks are needed: the harness wraps public attributes (make_converter.inner_f/key_f, '
                      'pane.io.open) from outside, in its own process; PANE_VERIF is reserved',
            'baseline_off_cmd': 'cd /repo && /venv/bin/python -m pytest -ra -q -p no:cacheprovider --timeout=900 '
                                '--continue-on-collection-errors',
            'source_commits': [],
            'add_only': True,
        },
        'engines': [
            {'name': 'tlc', 'path': 'harness/engine.py', 'serves_properties': sorted(CHECKS),
             'kind_free_text': 'TLC 1.8 exhaustive model checking of spec/*.tla with -dump, replay of every dumped case '
                               'into the real code (harness/conv.py), TLC trace validation of the recorded events '
                               '(spec/PaneTrace.tla)'},
        ],
        'checks': checks,
        'notes': 'Model-based verification with an explicit TLA+ specification (see DESIGN.md). Known findings: '
                 'known_findings.json. Seeded breakages: seeded/.',
        'not_applicable': na,
    }
    with open(os.path.join(VERIF, 'MANIFEST.json'), 'w') as f:
        json.dump(m, f, indent=1)
    print(f'MANIFEST: {len(checks)} checks, {len(na)} not yet claimed')


if __name__ == '__main__':
    main()
