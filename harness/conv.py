"""Driver for the conversion properties (C01-C06, C09, C11-C13): runs the real pane code on
abstract (type, value) cases and records events for PaneTrace.tla. Holds no expected values."""
from __future__ import annotations

import collections
import copy
import types
import warnings

import pane
from pane.convert import make_converter
from pane.errors import ConvertError, ParseInterrupt

from . import vocab
from .vocab import OutOfVocab, abstract, concretise, concretise_type

warnings.simplefilter('ignore')


def outcome(f, *a, **kw) -> dict:
    """Projected outcome of a call: ok(x) / reject / exc(class)."""
    try:
        x = f(*a, **kw)
    except ConvertError:
        return {'k': 'reject'}
    except Exception as e:  # noqa
        return {'k': 'exc', 'c': type(e).__name__}
    try:
        return {'k': 'ok', 'x': abstract(x)}
    except OutOfVocab:
        return {'k': 'ok', 'x': {'k': 'alien', 'c': type(x).__name__}}
    except RecursionError:
        return {'k': 'ok', 'x': {'k': 'alien', 'c': 'recursive'}}


class Case:
    __slots__ = ('T', 'v', 'sp', 'ty', 'val', 'err')

    def __init__(self, T, v, sp=0):
        self.T, self.v, self.sp = T, v, sp
        self.err = None
        try:
            self.ty = concretise_type(T, sp)
            self.val = concretise(v)
        except OutOfVocab as e:
            self.err = str(e)

    def describe(self) -> dict:
        return {'type': vocab.type_repr(getattr(self, 'ty', None)), 'value': repr(getattr(self, 'val', None))[:300],
                'abstract_type': self.T, 'abstract_value': self.v, 'spelling': self.sp}


def ev_from_data(ident: int, c: Case) -> dict:
    out = outcome(pane.from_data, c.val, c.ty)
    out2 = outcome(pane.from_data, c.val, c.ty)
    return {'id': ident, 'op': 'from_data', 'ty': c.T, 'val': c.v, 'out': out,
            'rerun': 'T' if out == out2 else 'F'}


def rerun_reverse(events: list, cases: dict) -> None:
    """Third execution, after the whole batch, in reverse order, with a cleared converter cache
    (history independence of verdict and value, C01 last sentence)."""
    try:
        make_converter.cache.clear()
    except Exception:
        pass
    for e in reversed(events):
        if e['op'] != 'from_data':
            continue
        c = cases[e['id']]
        if outcome(pane.from_data, c.val, c.ty) != e['out']:
            e['rerun'] = 'F'


# ---------------------------------------------------------------------------------------
# structural descent for minimal witnesses
def children(T: dict, v: dict) -> list:
    """Sub-cases (T_i, v_i) that the conversion of v to T is made of."""
    k = T['k']
    out = []
    if k in ('list', 'tuplevar', 'set', 'frozenset', 'deque'):
        if v['k'] == 'seq':
            out = [(T['e'], x) for x in v['xs']]
    elif k == 'tuple':
        if v['k'] == 'seq' and len(v['xs']) == len(T['es']):
            out = list(zip(T['es'], v['xs']))
    elif k in ('dict', 'defaultdict', 'ordereddict', 'counter'):
        if v['k'] == 'map':
            vt = {'k': 'int'} if k == 'counter' else T['vt']
            for p in v['ps']:
                out.append((T['kt'], p[0]))
                out.append((vt, p[1]))
    elif k == 'struct':
        if v['k'] == 'map':
            ft = {f[0]: f[1] for f in T['fs']}
            for p in v['ps']:
                if p[0]['k'] == 'str' and p[0]['s'] in ft:
                    out.append((ft[p[0]['s']], p[1]))
    elif k == 'union':
        out = [(a, v) for a in T['alts']]
    elif k == 'ann':
        out = [(T['t'], v)]
    elif k == 'sub':
        out = [(T['base'], v)]
    elif k == 'tvar':
        out = [(x, v) for x in T['ts']]
    elif k == 'cls':
        if v['k'] == 'map':
            for p in v['ps']:
                if p[0]['k'] == 'str':
                    for f in T['fs']:
                        if p[0]['s'] in f['ins']:
                            out.append((f['t'], p[1]))
        elif v['k'] == 'seq':
            pos = [f for f in T['fs'] if f['kw'] == 'F']
            out = [(f['t'], x) for f, x in zip(pos, v['xs'])]
    elif k == 'tagged':
        if v['k'] == 'map':
            for var in T['vars']:
                if T['lay'] == 'int':
                    body = {'k': 'map', 'f': v['f'], 'ps': [p for p in v['ps'] if not (p[0]['k'] == 'str' and p[0]['s'] == T['tag'])]}
                    out.append((var, body))
                elif T['lay'] == 'ext' and len(v['ps']) == 1:
                    out.append((var, v['ps'][0][1]))
                elif T['lay'] == 'adj':
                    for p in v['ps']:
                        if p[0]['k'] == 'str' and p[0]['s'] == T['ck']:
                            out.append((var, p[1]))
    return out


def tkind(T: dict) -> str:
    k = T['k']
    if k == 'sub':
        return 'sub:' + T['base']['k']
    if k == 'tagged':
        return 'tagged:' + T['lay']
    if k == 'enum':
        kinds = sorted({v['k'] for v in T['vs']})
        return 'enum:' + '+'.join(kinds)
    if k == 'tvar':
        return 'tvar:' + T['var']
    return k


_FACT_KINDS = {'decimal', 'fraction', 'date', 'time', 'datetime', 'pattern', 'patternb'}


def vkind(v: dict, T: dict | None = None) -> str:
    k = v['k']
    if k == 'seq':
        return 'seq:' + v['f']
    if k == 'map':
        return 'map:' + v['f']
    if k == 'bytes':
        return 'bytearray' if v['mut'] == 'T' else 'bytes'
    if k == 'int':
        return 'int:01' if v['n'] in (0, 1) else 'int'
    if k == 'float':
        return 'float' if v['sp'] == 'fin' else 'float:' + v['sp']
    if k == 'str':
        if T is None or T['k'] not in _FACT_KINDS:
            return 'str'
        f = vocab.facts(v['s'])
        tags = []
        if f['dec']['sp'] != 'no':
            tags.append('dec')
        if f['fr'][1] > 0:
            tags.append('frac')
        if f['fr'][1] < 0:
            tags.append('zerodiv')
        if f['date'] or f['time'] or f['dt']:
            tags.append('iso')
        if f['re'] != 'ok':
            tags.append('re-' + f['re'])
        return 'str' + (':' + '+'.join(tags) if tags else '')
    return k


def signature(clause: str, c: Case, ev: dict) -> dict:
    sig = {'clause': clause, 'type_kind': tkind(c.T), 'value_kind': vkind(c.v, c.T)}
    out = ev.get('out')
    if isinstance(out, dict):
        sig['outcome'] = out['k'] + (':' + out['c'] if out['k'] == 'exc' else '')
    return sig


# ---------------------------------------------------------------------------------------
# further event families
def _exc(e: BaseException) -> str:
    return 'exc:' + type(e).__name__


def ev_passes(ident: int, c: Case) -> dict:
    """C03: the two passes of the documented extension interface, separately, and convert()."""
    from pane.errors import ErrorNode
    cv = make_converter(c.ty)
    try:
        cv.try_convert(c.val)
        fast = 'ok'
    except ParseInterrupt:
        fast = 'interrupt'
    except Exception as e:  # noqa
        fast = _exc(e)
    try:
        node = cv.collect_errors(c.val)
        diag = 'none' if node is None else 'tree' if isinstance(node, ErrorNode) else 'junk'
    except Exception as e:  # noqa
        diag = _exc(e)
    tree = 'F'
    try:
        cv.convert(c.val)
        cres = 'ok'
    except ConvertError as e:
        cres = 'ConvertError'
        tree = 'T' if isinstance(getattr(e, 'tree', None), ErrorNode) else 'F'
    except RuntimeError:
        cres = 'RuntimeError'
    except Exception as e:  # noqa
        cres = _exc(e)
    return {'id': ident, 'op': 'passes', 'ty': c.T, 'val': c.v, 'fast': fast, 'diag': diag, 'conv': cres, 'tree': tree,
            'out': {'k': fast + '/' + diag + '/' + cres}}


def snap(o, depth=0):
    """Deep snapshot: projection plus identity of every container (so that replacing a
    container by an equal copy, or mutating and restoring, is seen)."""
    if depth > 12:
        return ('deep',)
    if isinstance(o, (list, tuple, collections.deque, vocab.OtherSeq)):
        return (type(o).__name__, id(o), tuple(snap(x, depth + 1) for x in o))
    if isinstance(o, (dict, types.MappingProxyType)):
        return (type(o).__name__, id(o), tuple((snap(k, depth + 1), snap(v, depth + 1)) for k, v in o.items()))
    if isinstance(o, (set, frozenset)):
        return (type(o).__name__, id(o), frozenset(snap(x, depth + 1) for x in o))
    if isinstance(o, bytearray):
        return ('bytearray', id(o), bytes(o))
    if isinstance(o, pane.PaneBase):
        return (type(o).__name__, id(o), tuple((f.name, snap(getattr(o, f.name, None), depth + 1)) for f in type(o).__pane_info__.fields),
                tuple(sorted(getattr(o, '__pane_set__', ()))))
    if isinstance(o, float) and o != o:
        return ('nan',)
    return (type(o).__name__, o)


def ev_snapshot(ident: int, c: Case, api: str = 'from_data') -> dict:
    """C09: the argument before and after the call, both verdicts."""
    val = c.val
    before = snap(val)
    f = {'from_data': pane.from_data, 'convert': pane.convert}[api]
    out = outcome(f, val, c.ty)
    after = snap(val)
    return {'id': ident, 'op': 'snapshot', 'api': api, 'ty': c.T, 'val': c.v, 'same': 'T' if before == after else 'F',
            'out': {'k': out['k'] if out['k'] != 'exc' else 'exc', 'c': out.get('c', '')}}


def ev_snapshot_convert(ident: int, c: Case) -> dict:
    return ev_snapshot(ident, c, 'convert')


def ev_roundtrip(ident: int, c: Case) -> dict:
    """C05: x = from_data(v,T); d = into_data(x,T); x2 = from_data(d,T); d2 = into_data(x2,T)."""
    e = {'id': ident, 'op': 'roundtrip', 'ty': c.T, 'val': c.v}
    no = {'k': 'skip'}
    try:
        x = pane.from_data(c.val, c.ty)
    except Exception:  # noqa  (the verdict itself is C01's business)
        e.update(x=no, d=no, x2=no, d2=no, out={'k': 'unconverted'})
        return e
    e['x'] = _proj(x)
    d = _call(pane.into_data, x, c.ty)
    e['d'] = d[0]
    e['x2'] = e['d2'] = no
    if d[0]['k'] == 'ok':
        x2 = _call(pane.from_data, d[1], c.ty)
        e['x2'] = x2[0]
        if x2[0]['k'] == 'ok':
            e['d2'] = _call(pane.into_data, x2[1], c.ty)[0]
    e['out'] = {'k': '/'.join(e[k]['k'] for k in ('x', 'd', 'x2', 'd2'))}
    return e


def _proj(x) -> dict:
    try:
        return {'k': 'ok', 'x': abstract(x)}
    except (OutOfVocab, RecursionError):
        return {'k': 'ok', 'x': {'k': 'alien', 'c': type(x).__name__}}


def _call(f, *a):
    try:
        r = f(*a)
    except ConvertError:
        return ({'k': 'reject'}, None)
    except Exception as e:  # noqa
        return ({'k': 'exc', 'c': type(e).__name__}, None)
    return (_proj(r), r)


def ev_fixpoint(ident: int, c: Case) -> dict:
    """C06: convert(x, T) for x produced by conversion and for an equal natively built object."""
    e = {'id': ident, 'op': 'fixpoint', 'ty': c.T, 'val': c.v}
    try:
        x = pane.from_data(c.val, c.ty)
        ax = abstract(x)
    except Exception:  # noqa
        e.update(x={'k': 'none'}, have='F', out={'k': 'unconverted'}, nat={'k': 'unconverted'}, twice={'k': 'unconverted'})
        return e
    e['x'] = ax
    e['have'] = 'T'
    e['out'] = outcome(pane.convert, x, c.ty)
    try:
        native = native_copy(x)            # rebuilt natively: not an object pane produced
        e['nat'] = outcome(pane.convert, native, c.ty)
    except OutOfVocab:
        e['nat'] = {'k': 'skip'}
    e['twice'] = outcome(lambda: pane.convert(pane.convert(c.val, c.ty), c.ty))
    return e


def native_copy(x):
    """An equal object built with ordinary Python constructors (nothing pane returned is reused,
    except that dataclass instances are made with the unchecked constructor of their class)."""
    if isinstance(x, pane.PaneBase):
        kw = {f.name: native_copy(getattr(x, f.name)) for f in type(x).__pane_info__.fields if f.init}
        return type(x).make_unchecked(**kw)
    if isinstance(x, (list, tuple, collections.deque)) and type(x) in (list, tuple, collections.deque):
        return type(x)(native_copy(e) for e in x)
    if type(x) in (set, frozenset):
        return type(x)(native_copy(e) for e in x)
    if type(x) in (dict, collections.OrderedDict, collections.Counter):
        return type(x)({native_copy(k): native_copy(v) for k, v in x.items()})
    if type(x) is collections.defaultdict:
        return collections.defaultdict(x.default_factory, ((native_copy(k), native_copy(v)) for k, v in x.items()))
    return concretise(abstract(x))
