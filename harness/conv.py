"""Driver for the conversion properties (C01-C06, C09, C11-C13): runs the real pane code on
abstract (type, value) cases and records events for PaneTrace.tla. Holds no expected values."""
from __future__ import annotations

import collections
import copy
import types
import typing as t
import warnings

import pane
from pane.convert import make_converter
from pane.errors import ConvertError, ParseInterrupt

from . import vocab
from .vocab import OutOfVocab, abstract, concretise, concretise_type

warnings.simplefilter('ignore')


def outcome(f, *a, **kw) -> dict:
    """Projected outcome of a call: ok(x) / reject / exc(class)."""
    try:
        x = f(*a, **kw)
    except ConvertError:
        return {'k': 'reject'}
    except Exception as e:  # noqa
        return {'k': 'exc', 'c': type(e).__name__}
    try:
        return {'k': 'ok', 'x': abstract(x)}
    except OutOfVocab:
        return {'k': 'ok', 'x': {'k': 'alien', 'c': type(x).__name__}}
    except RecursionError:
        return {'k': 'ok', 'x': {'k': 'alien', 'c': 'recursive'}}


_build_failures: dict = {}


def build_failure(T: dict, sp: int):
    """None if make_converter succeeds on the concretised type, else (exception class name,
    minimal failing sub-type). Building happens with no data in hand (C04)."""
    key = (vocab.canon(T), sp)
    if key in _build_failures:
        return _build_failures[key]
    r = None
    try:
        make_converter(concretise_type(T, sp))
    except OutOfVocab:
        raise
    except Exception as e:  # noqa
        r = (type(e).__name__, T)
        for sub in type_children(T):
            try:
                sr = build_failure(sub, sp)
            except OutOfVocab:
                continue
            if sr is not None:
                r = (type(e).__name__, sr[1])
                break
    _build_failures[key] = r
    return r


def type_children(T: dict) -> list:
    k = T['k']
    if k in ('list', 'tuplevar', 'set', 'frozenset', 'deque'):
        return [T['e']]
    if k == 'tuple':
        return list(T['es'])
    if k in ('dict', 'defaultdict', 'ordereddict'):
        return [T['kt'], T['vt']]
    if k == 'counter':
        return [T['kt']]
    if k == 'struct':
        return [f[1] for f in T['fs']]
    if k == 'union':
        return list(T['alts'])
    if k == 'ann':
        return [T['t']]
    if k == 'ndarray':
        return [T['e']]
    if k == 'tvar':
        return list(T['ts'])
    if k == 'tagged':
        return list(T['vars'])
    if k == 'cls':
        return [f['t'] for f in T['fs']]
    return []


class Case:
    __slots__ = ('T', 'v', 'sp', 'ty', 'val', 'err', 'bf')

    def __init__(self, T, v, sp=0):
        self.T, self.v, self.sp = T, v, sp
        self.err = None
        self.bf = None
        try:
            self.ty = concretise_type(T, sp)
            self.val = None if v.get('k') == 'construction' else concretise(v)
            self.bf = build_failure(T, sp)
        except OutOfVocab as e:
            self.err = str(e)

    def describe(self) -> dict:
        return {'type': vocab.type_repr(getattr(self, 'ty', None)), 'value': repr(getattr(self, 'val', None))[:300],
                'abstract_type': self.T, 'abstract_value': self.v, 'spelling': self.sp}


def ev_from_data(ident: int, c: Case) -> dict:
    if c.bf is not None:
        return {'id': ident, 'op': 'from_data', 'ty': c.T, 'val': c.v, 'out': {'k': 'exc', 'c': c.bf[0], 'phase': 'build'},
                'rerun': 'T'}
    out = outcome(pane.from_data, c.val, c.ty)
    out2 = outcome(pane.from_data, c.val, c.ty)
    e = {'id': ident, 'op': 'from_data', 'ty': c.T, 'val': c.v, 'out': out,
         'rerun': 'T' if out == out2 else 'F'}
    if _is_pane_class(c):
        e['alt'] = outcome(c.ty.from_data, c.val)        # the classmethod spelling of the same call
    return e


def _setrec(x, strict: bool = False):
    """names of the explicitly set fields of an instance, through the documented instance.dict(set_only=True)"""
    try:
        return tuple(x.dict(set_only=True))
    except Exception:  # noqa
        if strict:
            raise AttributeError('no record of set fields')
        return ()


def conv_tree(cv) -> dict:
    """The tree of converter objects as built by make_converter: class names and sub-converters."""
    name = type(cv).__name__
    if name in ('UnionConverter', 'TaggedUnionConverter', 'TupleConverter', 'ValueOrListConverter'):
        kids = list(cv.converters)
    elif name == 'StructConverter':
        kids = list(cv.field_converters.values())
    elif name == 'PaneConverter':
        kids = list(cv.field_converters)
    elif name == 'DictConverter':
        kids = [cv.k_conv, cv.v_conv]
    elif name == 'SequenceConverter':
        kids = [cv.v_conv]
    elif name == 'NestedSequenceConverter':
        kids = [cv.val_conv]
    elif name in ('ConditionalConverter', 'DelegateConverter'):
        kids = [cv.inner]
    elif name == 'EnumConverter':
        kids = [cv.inner_conv]
    elif name == 'PatternConverter':
        kids = [cv.ty_conv]
    else:
        kids = []
    return {'c': name, 'kids': [conv_tree(k) for k in kids]}


def ev_dispatch(ident: int, c: Case) -> dict:
    """The build phase as the implementation-shaped model sees it (spec/PaneDispatch.tla): informational."""
    if c.bf is not None:
        raise OutOfVocab('converter cannot be built')
    try:
        tree = conv_tree(make_converter(c.ty))
    except Exception:  # noqa  (an attribute of a converter class was renamed: the model has no view any more)
        raise OutOfVocab('converter objects cannot be walked')
    return {'id': ident, 'op': 'dispatch', 'ty': c.T, 'val': c.v, 'tree': tree, 'out': {'k': 'built'}}


def _is_pane_class(c: Case) -> bool:
    return c.T['k'] == 'cls' and isinstance(c.ty, type) and issubclass(c.ty, pane.PaneBase)


def ev_from_json(ident: int, c: Case) -> dict:
    """C04: the same conversion reached through pane.io.from_json: the value is written with the standard
    library's json module, read by pane; the event carries the value as json reads it back."""
    import io as _io
    import json as _json
    from pane import io as pio
    if c.bf is not None:
        raise OutOfVocab('converter cannot be built')
    try:
        txt = _json.dumps(c.val, allow_nan=False)
        v2 = _json.loads(txt)
        av2 = abstract(v2)
    except (TypeError, ValueError, OverflowError, RecursionError):
        raise OutOfVocab('not a JSON value')
    out = outcome(lambda: pio.from_json(_io.StringIO(txt), c.ty))
    e = {'id': ident, 'op': 'from_data', 'ty': c.T, 'val': av2, 'out': out, 'rerun': 'T', 'api': 'from_json'}
    if _is_pane_class(c):
        e['alt'] = outcome(lambda: c.ty.from_jsons(txt))
    return e


def rerun_reverse(events: list, cases: dict) -> None:
    """Third execution, after the whole batch, in reverse order, with a cleared converter cache
    (history independence of verdict and value, C01 last sentence)."""
    try:
        make_converter.cache.clear()
    except Exception:
        pass
    for e in reversed(events):
        if e['op'] != 'from_data':
            continue
        c = cases[e['id']]
        if outcome(pane.from_data, c.val, c.ty) != e['out']:
            e['rerun'] = 'F'


# ---------------------------------------------------------------------------------------
# structural descent for minimal witnesses
def children(T: dict, v: dict) -> list:
    """Sub-cases (T_i, v_i) that the conversion of v to T is made of."""
    k = T['k']
    out = []
    if k in ('list', 'tuplevar', 'set', 'frozenset', 'deque'):
        if v['k'] == 'seq':
            out = [(T['e'], x) for x in v['xs']]
    elif k == 'tuple':
        if v['k'] == 'seq' and len(v['xs']) == len(T['es']):
            out = list(zip(T['es'], v['xs']))
    elif k in ('dict', 'defaultdict', 'ordereddict', 'counter'):
        if v['k'] == 'map':
            vt = {'k': 'int'} if k == 'counter' else T['vt']
            for p in v['ps']:
                out.append((T['kt'], p[0]))
                out.append((vt, p[1]))
    elif k == 'struct':
        if v['k'] == 'map':
            ft = {f[0]: f[1] for f in T['fs']}
            for p in v['ps']:
                if p[0]['k'] == 'str' and p[0]['s'] in ft:
                    out.append((ft[p[0]['s']], p[1]))
    elif k == 'union':
        out = [(a, v) for a in T['alts']]
    elif k == 'ann':
        out = [(T['t'], v)]
    elif k == 'vol':
        out = [(T['e'], v), ({'k': 'list', 'e': T['e']}, v)]
    elif k == 'sub':
        out = [(T['base'], v)]
    elif k == 'tvar':
        out = [(x, v) for x in T['ts']]
    elif k == 'cls':
        if v['k'] == 'map':
            for p in v['ps']:
                if p[0]['k'] == 'str':
                    for f in T['fs']:
                        if p[0]['s'] in f['ins'] and f.get('init', 'T') == 'T':
                            out.append((f['t'], p[1]))
        elif v['k'] == 'seq':
            pos = [f for f in T['fs'] if f['kw'] == 'F' and f.get('init', 'T') == 'T']
            out = [(f['t'], x) for f, x in zip(pos, v['xs'])]
    elif k == 'tagged':
        if v['k'] == 'map':
            for var in T['vars']:
                if T['lay'] == 'int':
                    body = {'k': 'map', 'f': v['f'], 'ps': [p for p in v['ps'] if not (p[0]['k'] == 'str' and p[0]['s'] == T['tag'])]}
                    out.append((var, body))
                elif T['lay'] == 'ext' and len(v['ps']) == 1:
                    out.append((var, v['ps'][0][1]))
                elif T['lay'] == 'adj':
                    for p in v['ps']:
                        if p[0]['k'] == 'str' and p[0]['s'] == T['ck']:
                            out.append((var, p[1]))
    return out


def tkind(T: dict) -> str:
    k = T['k']
    if k == 'sub':
        return 'sub:' + T['base']['k']
    if k == 'tagged':
        return 'tagged:' + T['lay']
    if k == 'enum':
        kinds = sorted({v['k'] for v in T['vs']})
        return 'enum:' + '+'.join(kinds)
    if k == 'tvar':
        return 'tvar:' + T['var']
    if k == 'cls':
        return 'cls:' + T['name']
    return k


_FACT_KINDS = {'decimal', 'fraction', 'date', 'time', 'datetime', 'pattern', 'patternb'}


def vkind(v: dict, T: dict | None = None) -> str:
    k = v['k']
    if k == 'construction':
        odd = [vkind(p[1]) for p in v['sup']]
        return f"construction:{v['path']}:{len(v['sup'])}sup:{v['posn']}pos:" + ','.join(odd)
    if k == 'seq':
        return 'seq:' + v['f']
    if k == 'map':
        return 'map:' + v['f']
    if k == 'bytes':
        return 'bytearray' if v['mut'] == 'T' else 'bytes'
    if k == 'int':
        return 'int:01' if v['n'] in (0, 1) else 'int'
    if k == 'float':
        return 'float' if v['sp'] == 'fin' else 'float:' + v['sp']
    if k == 'str':
        if T is None or T['k'] not in _FACT_KINDS:
            return 'str'
        f = vocab.facts(v['s'])
        tags = []
        if f['dec']['sp'] != 'no':
            tags.append('dec')
        if f['fr'][1] > 0:
            tags.append('frac')
        if f['fr'][1] < 0:
            tags.append('zerodiv')
        if f['date'] or f['time'] or f['dt']:
            tags.append('iso')
        if f['re'] != 'ok':
            tags.append('re-' + f['re'])
        return 'str' + (':' + '+'.join(tags) if tags else '')
    return k


def cls_features(C: dict) -> list:
    """Which features of the class rules a generated class exercises (for witness signatures)."""
    fs = []
    if C['outf'] == 'tuple':
        fs.append('tuple-out')
    inf = C['inf']['$set'] if isinstance(C['inf'], dict) else C['inf']
    if 'tuple' in inf:
        fs.append('tuple-in')
    if 'struct' not in inf:
        fs.append('no-struct-in')
    if C['extra'] == 'T':
        fs.append('allow-extra')
    if C['hook']['k'] != 'nohook':
        fs.append('hook')
    for f in C['fs']:
        if f['kw'] == 'T':
            fs.append('kw-only')
        if f['n'] not in f['ins']:
            fs.append('python-name-not-input')
        if len(f['ins']) > 1:
            fs.append('alias')
        if f['out'] != f['n']:
            fs.append('out-name')
        if f['ex'] == 'T':
            fs.append('exclude')
        if f.get('init', 'T') == 'F':
            fs.append('init-false')
        if f['d']['k'] == 'fac':
            fs.append('factory')
    pos = [f for f in C['fs'] if f['kw'] == 'F' and f.get('init', 'T') == 'T']
    if any(f['ex'] == 'T' and any(g['ex'] == 'F' for g in pos[i + 1:]) for i, f in enumerate(pos)):
        fs.append('excluded-positional-field-before-a-written-one')      # (tuple output then shifts the later values)
    return sorted(set(fs))


def cls_value_features(C: dict, v: dict) -> list:
    """How a mapping / sequence relates to the class's binding rules (structural, from the descriptor)."""
    out = []
    if v['k'] == 'map':
        names_in = {n for f in C['fs'] if f.get('init', 'T') == 'T' for n in f['ins']}
        py_names = {f['n'] for f in C['fs']}
        seen = {}
        for p in v['ps']:
            if p[0]['k'] != 'str':
                out.append('non-str-key')
                continue
            key = p[0]['s']
            if key in names_in:
                fld = [f['n'] for f in C['fs'] if key in f['ins']][0]
                if fld in seen:
                    out.append('duplicate-field')
                seen[fld] = 1
            elif key in py_names:
                out.append('python-name-key-not-input')
                fld = [f for f in C['fs'] if f['n'] == key][0]
                if any(q[0]['k'] == 'str' and q[0]['s'] in fld['ins'] for q in v['ps']):
                    out.append('python-name-beside-input-name')     # the same field also under one of its input names
            else:
                out.append('unknown-key')
        for f in C['fs']:
            if f.get('init', 'T') == 'T' and f['d']['k'] == 'nodef' and f['n'] not in seen:
                out.append('missing-required')
    elif v['k'] == 'seq':
        pos = [f for f in C['fs'] if f['kw'] == 'F' and f.get('init', 'T') == 'T']
        req = [f for f in pos if f['d']['k'] == 'nodef']
        if len(v['xs']) < len(req):
            out.append('too-short')
        if len(v['xs']) > len(pos):
            out.append('too-long')
    return sorted(set(out))


def _tag_renamed(T) -> bool:
    """does T hold a tagged union one of whose variants spells its tag field differently in data"""
    if isinstance(T, dict):
        if T.get('k') == 'tagged':
            for v in T['vars']:
                for f in v.get('fs', []):
                    if f['n'] == T['tag'] and f['out'] != T['tag']:
                        return True
        return any(_tag_renamed(x) for x in T.values())
    if isinstance(T, list):
        return any(_tag_renamed(x) for x in T)
    return False


def signature(clause: str, c: Case, ev: dict) -> dict:
    out = ev.get('out')
    if c.bf is not None:
        # the converter cannot even be built: the witness is the type (its minimal failing part), not the value
        return {'clause': 'build-fails-documented' if clause == 'foreign-exception' else clause,
                'type_kind': tkind(c.bf[1]), 'value_kind': '-', 'outcome': 'exc:' + c.bf[0]}
    sig = {'clause': clause, 'type_kind': tkind(c.T), 'value_kind': vkind(c.v, c.T)}
    if ev.get('op') == 'render' and 'rtree' in ev:
        sig['shape'] = tree_shape(ev['rtree'])
    lay = _tagged_layout(c.T)
    if lay:
        sig['tagged'] = lay
        if _tag_renamed(c.T):
            sig['tag_renamed'] = 'T'
    if c.T['k'] in ('dict', 'defaultdict', 'ordereddict', 'counter') and _contains_kind(c.T['kt'], ('set', 'frozenset')):
        sig['key_contains_set'] = 'T'
    if c.T['k'] == 'cls':
        sig['features'] = cls_features(c.T)
        sig['value_features'] = cls_value_features(c.T, c.v)
        if c.T['hook']['k'] == 'rangehook':
            x = ev.get('x') or {}
            x = x.get('x', x) if isinstance(x, dict) else {}
            if isinstance(x, dict) and x.get('k') == 'inst':
                fv = {f[0]: f[1] for f in x['fs']}
                if fv.get('s_n', {}).get('k') != 'none' and fv.get('s_step', {}).get('k') != 'none':
                    sig['value_features'] = sorted(sig['value_features'] + ['instance-holds-n-and-step'])
    if isinstance(out, dict):
        sig['outcome'] = out['k'] + (':' + out['c'] if out['k'] == 'exc' else '')
    return sig


# ---------------------------------------------------------------------------------------
# further event families
def _exc(e: BaseException) -> str:
    return 'exc:' + type(e).__name__


def ev_passes(ident: int, c: Case) -> dict:
    """C03: the two passes of the documented extension interface, separately, and convert()."""
    from pane.errors import ErrorNode
    if c.bf is not None:   # a type that cannot be built is C04's business, not C03's
        raise OutOfVocab('converter cannot be built')
    cv = make_converter(c.ty)
    try:
        cv.try_convert(c.val)
        fast = 'ok'
    except ParseInterrupt:
        fast = 'interrupt'
    except Exception as e:  # noqa
        fast = _exc(e)
    try:
        node = cv.collect_errors(c.val)
        diag = 'none' if node is None else 'tree' if isinstance(node, ErrorNode) else 'junk'
    except Exception as e:  # noqa
        diag = _exc(e)
    tree = 'F'
    try:
        cv.convert(c.val)
        cres = 'ok'
    except ConvertError as e:
        cres = 'ConvertError'
        tree = 'T' if isinstance(getattr(e, 'tree', None), ErrorNode) else 'F'
    except RuntimeError:
        cres = 'RuntimeError'
    except Exception as e:  # noqa
        cres = _exc(e)
    return {'id': ident, 'op': 'passes', 'ty': c.T, 'val': c.v, 'fast': fast, 'diag': diag, 'conv': cres, 'tree': tree,
            'out': {'k': fast + '/' + diag + '/' + cres}}


def snap(o, depth=0):
    """Deep snapshot: projection plus identity of every container (so that replacing a
    container by an equal copy, or mutating and restoring, is seen)."""
    if depth > 12:
        return ('deep',)
    if isinstance(o, (list, tuple, collections.deque, vocab.OtherSeq)):
        return (type(o).__name__, id(o), tuple(snap(x, depth + 1) for x in o))
    if isinstance(o, (dict, types.MappingProxyType)):
        return (type(o).__name__, id(o), tuple((snap(k, depth + 1), snap(v, depth + 1)) for k, v in o.items()))
    if isinstance(o, (set, frozenset)):
        return (type(o).__name__, id(o), frozenset(snap(x, depth + 1) for x in o))
    if isinstance(o, bytearray):
        return ('bytearray', id(o), bytes(o))
    if isinstance(o, pane.PaneBase):
        return (type(o).__name__, id(o), tuple((f.name, snap(getattr(o, f.name, None), depth + 1)) for f in type(o).__pane_info__.fields),
                tuple(sorted(_setrec(o))))
    if isinstance(o, float) and o != o:
        return ('nan',)
    return (type(o).__name__, o)


def ev_snapshot(ident: int, c: Case, api: str = 'from_data') -> dict:
    """C09: the argument before and after the call, both verdicts."""
    val = c.val
    before = snap(val)
    f = {'from_data': pane.from_data, 'convert': pane.convert}[api]
    out = outcome(f, val, c.ty)
    after = snap(val)
    return {'id': ident, 'op': 'snapshot', 'api': api, 'ty': c.T, 'val': c.v, 'same': 'T' if before == after else 'F',
            'out': {'k': out['k'] if out['k'] != 'exc' else 'exc', 'c': out.get('c', '')}}


def ev_snapshot_convert(ident: int, c: Case) -> dict:
    return ev_snapshot(ident, c, 'convert')


def ev_roundtrip(ident: int, c: Case) -> dict:
    """C05: x = from_data(v,T); d = into_data(x,T); x2 = from_data(d,T); d2 = into_data(x2,T)."""
    e = {'id': ident, 'op': 'roundtrip', 'ty': c.T, 'val': c.v}
    no = {'k': 'skip'}
    try:
        x = pane.from_data(c.val, c.ty)
    except Exception:  # noqa  (the verdict itself is C01's business)
        e.update(x=no, d=no, x2=no, d2=no, out={'k': 'unconverted'})
        return e
    e['x'] = _proj(x)
    d = _call(pane.into_data, x, c.ty)
    e['d'] = d[0]
    if _is_pane_class(c) and isinstance(x, pane.PaneBase):
        e['dm'] = _call(x.into_data)[0]                  # the method spelling of the same call
    e['x2'] = e['d2'] = no
    if d[0]['k'] == 'ok':
        x2 = _call(pane.from_data, d[1], c.ty)
        e['x2'] = x2[0]
        if x2[0]['k'] == 'ok':
            e['d2'] = _call(pane.into_data, x2[1], c.ty)[0]
    e['out'] = {'k': '/'.join(e[k]['k'] for k in ('x', 'd', 'x2', 'd2'))}
    return e


def _proj(x) -> dict:
    try:
        return {'k': 'ok', 'x': abstract(x)}
    except (OutOfVocab, RecursionError):
        return {'k': 'ok', 'x': {'k': 'alien', 'c': type(x).__name__}}


def _call(f, *a):
    try:
        r = f(*a)
    except ConvertError:
        return ({'k': 'reject'}, None)
    except Exception as e:  # noqa
        return ({'k': 'exc', 'c': type(e).__name__}, None)
    return (_proj(r), r)


def ev_fixpoint(ident: int, c: Case) -> dict:
    """C06: convert(x, T) for x produced by conversion and for an equal natively built object."""
    e = {'id': ident, 'op': 'fixpoint', 'ty': c.T, 'val': c.v}
    try:
        x = pane.from_data(c.val, c.ty)
        ax = abstract(x)
    except Exception:  # noqa
        e.update(x={'k': 'none'}, have='F', out={'k': 'unconverted'}, nat={'k': 'unconverted'}, twice={'k': 'unconverted'},
                 ser={'k': 'skip'})
        return e
    e['x'] = ax
    e['have'] = 'T'
    e['ser'] = _call(pane.into_data, x)[0]      # the value's own serialised form (what convert() parses)
    e['out'] = outcome(pane.convert, x, c.ty)
    if _is_pane_class(c):
        e['obj'] = outcome(c.ty.from_obj, x)             # the classmethod spelling of convert(x, Cls)
    try:
        native = native_copy(x)            # rebuilt natively: not an object pane produced
        e['nat'] = outcome(pane.convert, native, c.ty)
    except OutOfVocab:
        e['nat'] = {'k': 'skip'}
    e['twice'] = outcome(lambda: pane.convert(pane.convert(c.val, c.ty), c.ty))
    return e


def native_copy(x):
    """An equal object built with ordinary Python constructors (nothing pane returned is reused,
    except that dataclass instances are made with the unchecked constructor of their class)."""
    if isinstance(x, pane.PaneBase):
        kw = {f.name: native_copy(getattr(x, f.name)) for f in type(x).__pane_info__.fields if f.init}
        try:
            return type(x).make_unchecked(**kw)
        except Exception:  # noqa
            # a class whose hook derives some fields from the others (pane.types.Range): built from the
            # fields that were supplied, as a user would
            given = _setrec(x)
            try:
                return type(x).make_unchecked(**{k: v for k, v in kw.items() if k in given})
            except Exception:  # noqa
                raise OutOfVocab('no native construction')
    if isinstance(x, (list, tuple, collections.deque)) and type(x) in (list, tuple, collections.deque):
        return type(x)(native_copy(e) for e in x)
    if type(x) in (set, frozenset):
        return type(x)(native_copy(e) for e in x)
    if type(x) in (dict, collections.OrderedDict, collections.Counter):
        return type(x)({native_copy(k): native_copy(v) for k, v in x.items()})
    if type(x) is collections.defaultdict:
        return collections.defaultdict(x.default_factory, ((native_copy(k), native_copy(v)) for k, v in x.items()))
    return concretise(abstract(x))


def ev_unionser(ident: int, c: Case) -> dict:
    """C11, serialisation direction: into_data(x, Union[...]) for x obtained by conversion."""
    e = {'id': ident, 'op': 'unionser', 'ty': c.T, 'val': c.v}
    if c.T['k'] != 'union':
        raise OutOfVocab('not a union')
    try:
        x = pane.from_data(c.val, c.ty)
        e['x'] = abstract(x)
        e['have'] = 'T'
    except Exception:  # noqa
        e.update(x={'k': 'none'}, have='F', d={'k': 'skip'}, out={'k': 'unconverted'})
        return e
    e['d'] = _call(pane.into_data, x, c.ty)[0]
    e['out'] = {'k': e['d']['k']}
    return e


def ev_build(ident: int, c_or_T, documented: bool = True) -> dict:
    """C04, build phase: make_converter on the type alone (no data in hand)."""
    T = c_or_T.T if isinstance(c_or_T, Case) else c_or_T
    try:
        ty = concretise_type(T, getattr(c_or_T, 'sp', 0))
        make_converter(ty)
        out = {'k': 'ok'}
    except OutOfVocab:
        raise
    except Exception as e:  # noqa
        out = {'k': 'exc', 'c': type(e).__name__}
    return {'id': ident, 'op': 'build', 'ty': T, 'val': {'k': 'none'}, 'out': out, 'doc': 'T' if documented else 'F', 'must': 'any'}


def ev_tagmsg(ident: int, c: Case) -> dict:
    """C12: does the text of the ConvertError name the tag (substring search only)."""
    T = c.T
    if T['k'] != 'tagged':
        raise OutOfVocab('not tagged')
    msg = {'tag': 'F', 'tk': 'F', 'tags': 'F'}
    try:
        pane.from_data(c.val, c.ty)
        out = {'k': 'ok'}
    except ConvertError as e:
        out = {'k': 'reject'}
        try:
            txt = str(e)
        except Exception:  # noqa
            txt = ''
        msg['tag'] = 'T' if vocab.text(T['tag']) in txt else 'F'
        msg['tk'] = 'T' if repr(vocab.text(T['tk'])) in txt or f"'{vocab.text(T['tk'])}'" in txt else 'F'
        msg['tags'] = 'T' if all(repr(concretise(tg)) in txt for tg in T['tags']) else 'F'
    except Exception as e:  # noqa
        out = {'k': 'exc', 'c': type(e).__name__}
    return {'id': ident, 'op': 'tagmsg', 'ty': T, 'val': c.v, 'out': out, 'msg': msg}


def unsupported_catalogue() -> list:
    """Type expressions outside the documented grammar (C04: must fail with TypeError or
    UnsupportedAnnotation at build time, before any data is looked at)."""
    import enum as _enum
    import typing as t
    import collections.abc as cabc
    from pane.annotations import Tagged

    class _Flag(_enum.Flag):
        A = 1
        B = 2

    class _EnumUnhashable(_enum.Enum):
        A = [1]

    class _EnumAlien(_enum.Enum):
        A = object()

    class _V(pane.PaneBase):
        kind: t.Literal['a'] = 'a'

    class _W(pane.PaneBase):
        other: int = 1

    class _V2(pane.PaneBase):
        kind: t.Literal['a'] = 'a'
        z: int = 0

    NT = t.NewType('NT', int)
    cat = [
        ('forward-ref', t.ForwardRef('Nope')), ('str-annotation', 'int'), ('Final', t.Final[int]),
        ('ClassVar', t.ClassVar[int]), ('NewType', NT), ('Callable', t.Callable[[int], int]), ('object', object),
        ('Annotated-doc', t.Annotated[int, 'doc']), ('Tagged-non-union', t.Annotated[int, Tagged('kind')]),
        ('Tagged-member-lacks-tag', t.Annotated[t.Union[_V, _W], Tagged('kind')]),
        ('Pattern[int]', t.Pattern[int]), ('flag-enum', _Flag), ('enum-unhashable', _EnumUnhashable),
        ('enum-alien', _EnumAlien), ('abstract-collection', cabc.Collection), ('Iterable', t.Iterable[int]),
        ('type-object', type), ('Generic-alias', t.Type[int]), ('None-literal', None), ('Ellipsis', ...),
    ]
    dup = [('Tagged-duplicate-tags', t.Annotated[t.Union[_V, _V2], Tagged('kind')]),
           ('Tagged-duplicate-tags-ext', t.Annotated[t.Union[_V, _V2], Tagged('kind', external=True)]),
           ('Tagged-duplicate-tags-adj', t.Annotated[t.Union[_V, _V2], Tagged('kind', external=('t', 'c'))])]
    return [(n, ty, 'any') for n, ty in cat] + [(n, ty, 'fail') for n, ty in dup]


def build_events_unsupported(start_id: int, only_dup: bool = False) -> tuple:
    evs, desc = [], {}
    i = start_id
    for name, ty, must in unsupported_catalogue():
        if only_dup and must != 'fail':
            continue
        i += 1
        try:
            make_converter(ty)
            out = {'k': 'ok'}
        except Exception as e:  # noqa
            out = {'k': 'exc', 'c': type(e).__name__}
        evs.append({'id': i, 'op': 'build', 'ty': {'k': 'unsupported', 'name': name}, 'val': {'k': 'none'}, 'out': out,
                    'doc': 'F', 'must': must})
        desc[i] = name
    return evs, desc


def ev_snapshot_into(ident: int, c: Case) -> dict:
    """C09: into_data must not modify the typed value it serialises."""
    try:
        x = pane.from_data(c.val, c.ty)
    except Exception:  # noqa
        raise OutOfVocab('no typed value')
    before = snap(x)
    out = _call(pane.into_data, x, c.ty)[0]
    after = snap(x)
    return {'id': ident, 'op': 'snapshot', 'api': 'into_data', 'ty': c.T, 'val': c.v, 'same': 'T' if before == after else 'F',
            'out': {'k': out['k'], 'c': out.get('c', '')}}


def ev_snapshot_construct(ident: int, c: Case) -> dict:
    """C09: Cls(*args) / Cls(**kwargs) must not modify the arguments passed in."""
    if c.T['k'] != 'cls':
        raise OutOfVocab('not a class')
    val = c.val
    before = snap(val)
    try:
        if isinstance(val, dict) and all(isinstance(k, str) and k.isidentifier() for k in val):
            c.ty(**val)
        elif isinstance(val, (list, tuple)):
            c.ty(*val)
        else:
            raise OutOfVocab('not an argument list')
        k = 'ok'
    except OutOfVocab:
        raise
    except Exception:  # noqa
        k = 'raised'
    after = snap(val)
    return {'id': ident, 'op': 'snapshot', 'api': 'construct', 'ty': c.T, 'val': c.v, 'same': 'T' if before == after else 'F',
            'out': {'k': k, 'c': ''}}


# ---------------------------------------------------------------------------------------
# error trees (C07, C08)
def _key_atom(k) -> dict:
    if isinstance(k, bool) or not isinstance(k, (int, str)):
        return {'k': 'str', 's': vocab.tok('?' + repr(k))}
    if isinstance(k, int):
        return {'k': 'int', 'n': k}
    return {'k': 'str', 's': vocab.tok(k)}


def _act(x) -> dict:
    try:
        return abstract(x)
    except (OutOfVocab, RecursionError):
        return {'k': 'alien', 'c': type(x).__name__}


def _cause(tb) -> str:
    if tb is None:
        return ''
    try:
        return vocab.tok(''.join(tb.format_exception_only()).strip().split('\n')[-1])
    except Exception:  # noqa
        return vocab.tok('?cause')


def abstract_tree(node) -> dict:
    from pane import errors as E
    if isinstance(node, E.WrongTypeError):
        return {'k': 'wt', 'exp': vocab.tok(str(node.expected)), 'act': _act(node.actual), 'cause': _cause(node.cause)}
    if isinstance(node, E.WrongLenError):
        return {'k': 'wl', 'exp': vocab.tok(str(node.expected)), 'act': _act(node.actual), 'cause': '',
                'lo': node.expected_len[0], 'hi': node.expected_len[1], 'len': node.actual_len}
    if isinstance(node, E.ConditionFailedError):
        return {'k': 'cf', 'exp': vocab.tok(str(node.expected)), 'act': _act(node.actual), 'cause': _cause(node.cause),
                'cond': vocab.tok(str(node.condition))}
    if isinstance(node, E.DuplicateKeyError):
        return {'k': 'dup', 'key': _key_atom(node.key), 'aliases': [vocab.tok(a) for a in node.aliases]}
    if isinstance(node, E.ProductErrorNode):
        return {'k': 'prod', 'exp': vocab.tok(str(node.expected)),
                'ch': [[_key_atom(k), abstract_tree(c)] for k, c in node.children.items()],
                'missing': sorted(vocab.tok(m) if isinstance(m, str) else vocab.tok('/'.join(m)) for m in node.missing),
                'extra': sorted(_key_atom(x)['s'] if _key_atom(x)['k'] == 'str' else vocab.tok('?' + repr(x)) for x in node.extra),
                'act': _act(node.actual)}
    if isinstance(node, E.SumErrorNode):
        return {'k': 'sum', 'ch': [abstract_tree(c) for c in node.children]}
    return {'k': 'alien', 'c': type(node).__name__}


def _tree_of(ty, val):
    try:
        pane.from_data(val, ty)
    except ConvertError as e:
        return e.tree
    except Exception:  # noqa
        return None
    return None


def ev_tree(ident: int, c: Case) -> dict:
    """C07: the tree of the failed conversion plus, for each direct child of a product / sum
    node, the tree that the element's own type reports for that sub-value alone."""
    e = {'id': ident, 'op': 'tree', 'ty': c.T, 'val': c.v, 'alone': []}
    tree = _tree_of(c.ty, c.val)
    if tree is None:
        e['tree'] = {'k': 'none'}
        e['out'] = {'k': 'no-tree'}
        return e
    e['tree'] = abstract_tree(tree)
    e['out'] = {'k': e['tree']['k']}
    # stand-alone trees of the structural children (element type's own converter, sub-value alone)
    alone = []
    for idx, (kT, kv) in enumerate(children(c.T, c.v)):
        try:
            kc = Case(kT, kv, c.sp)
        except Exception:  # noqa
            continue
        if kc.err is not None or kc.bf is not None:
            continue
        t2 = _tree_of(kc.ty, kc.val)
        alone.append({'ty': kT, 'val': kv, 'tree': abstract_tree(t2) if t2 is not None else {'k': 'none'}})
    e['alone'] = alone
    # history independence of the report itself: with the converter cache emptied, the same failure reports the same tree
    if (ident + engine_seed()) % _FRESH_EVERY[0] == 0:
        # a handler set nobody has used yet (a new, behaviourally empty handler): every converter of the tree is built
        # anew for it, while the converters memoised for the plain call keep whatever history they have
        def fresh_noop(ty, args, *, handlers):
            return NotImplemented
        try:
            pane.from_data(c.val, c.ty, custom=fresh_noop)
            t3 = None
        except ConvertError as ex:
            t3 = ex.tree
        except Exception:  # noqa
            t3 = None
        e['fresh'] = 'T' if (abstract_tree(t3) if t3 is not None else {'k': 'none'}) == e['tree'] else 'F'
        _FRESH_COUNT[0] += 1
        if _FRESH_COUNT[0] % 1000 == 0:      # (the memo keeps every handler set alive: bound its growth)
            try:
                make_converter.cache.clear()
            except Exception:  # noqa
                pass
    return e


_FRESH_EVERY = [4]
_FRESH_COUNT = [0]


def engine_seed() -> int:
    from . import engine
    return engine.seed()


def ev_render(ident: int, c: Case) -> dict:
    """C08: rendering of the error tree. Python reports only: did str() raise, is it stable, and
    at which offsets each string that occurs in the recorded tree occurs in the text."""
    import copy as _copy
    e = {'id': ident, 'op': 'render', 'ty': c.T, 'val': c.v}
    err = None
    try:
        pane.from_data(c.val, c.ty)
    except ConvertError as ex:
        err = ex
    except Exception:  # noqa
        pass
    if err is None:
        e.update(tree={'k': 'none'}, raised='F', stable='T', occ=[], out={'k': 'no-tree'})
        return e
    tree = abstract_tree(err.tree)
    e['tree'] = tree
    try:
        txt = str(err)
        e['raised'] = 'F'
    except Exception:  # noqa
        e.update(raised='T', stable='T', occ=[], out={'k': 'render-raised'})
        return e
    try:
        again = str(err)
        fresh = None
        try:
            pane.from_data(c.val, c.ty)
        except ConvertError as ex2:
            fresh = str(ex2)             # the tree of an independent second failure renders the same
        e['stable'] = 'T' if txt == again == fresh and txt == str(err.tree) else 'F'
    except Exception:  # noqa
        e['stable'] = 'F'
    frags = render_fragments(err.tree)
    occ = []
    for name, s in frags.items():
        offs = [-1] if s == '' else []
        if s != '':
            i = txt.find(s)
            while i != -1:
                offs.append(i)
                i = txt.find(s, i + 1)
            if len(offs) > 4000:     # (never truncated: a dropped occurrence could be the one that satisfies the order)
                raise OutOfVocab('a fragment occurs more than 4000 times in the text')
        occ.append([name, offs])
    e['occ'] = occ
    e['rtree'] = render_tree(err.tree, frags)
    e['out'] = {'k': 'rendered'}
    return e


def render_fragments(node, acc=None, names=None) -> dict:
    """fragment id -> the text that must be searched for, for every string occurring in the tree."""
    from pane import errors as E
    acc = {} if acc is None else acc

    def add(text):
        text = str(text)
        for k, v in acc.items():
            if v == text:
                return k
        k = 'f' + str(len(acc) + 1)
        acc[k] = text
        return k
    if isinstance(node, (E.WrongTypeError, E.WrongLenError, E.ConditionFailedError)):
        add(node.expected)
        add(f'{node.actual}')
        tb = getattr(node, 'cause', None)
        if tb is not None:
            add(_cause_text(tb))
    elif isinstance(node, E.DuplicateKeyError):
        add(node.key)
        for a in node.aliases:
            add(a)
    elif isinstance(node, E.ProductErrorNode):
        for k, ch in node.children.items():
            add(k)
            render_fragments(ch, acc)
        for m in node.missing:
            add(m if isinstance(m, str) else '/'.join(m))
        for x in node.extra:
            add(x)
    elif isinstance(node, E.SumErrorNode):
        for ch in node.children:
            render_fragments(ch, acc)
    return acc


def _cause_text(tb) -> str:
    try:
        return ''.join(tb.format_exception_only()).strip().split('\n')[-1]
    except Exception:  # noqa
        return '?cause'


def render_tree(node, frags: dict) -> dict:
    """The tree again, with every string replaced by its fragment id (for the TLC-side Needs)."""
    from pane import errors as E
    inv = {v: k for k, v in frags.items()}
    f = lambda s: inv[str(s)]  # noqa
    if isinstance(node, (E.WrongTypeError, E.WrongLenError, E.ConditionFailedError)):
        tb = getattr(node, 'cause', None)
        return {'k': 'leaf', 'exp': f(node.expected), 'val': f(f'{node.actual}'), 'cause': f(_cause_text(tb)) if tb is not None else ''}
    if isinstance(node, E.DuplicateKeyError):
        return {'k': 'dup', 'key': f(node.key), 'aliases': [f(a) for a in node.aliases]}
    if isinstance(node, E.ProductErrorNode):
        return {'k': 'prod', 'ch': [[f(k), render_tree(c, frags)] for k, c in node.children.items()],
                'missing': [f(m if isinstance(m, str) else '/'.join(m)) for m in node.missing],
                'extra': [f(x) for x in node.extra]}
    if isinstance(node, E.SumErrorNode):
        return {'k': 'sum', 'ch': [render_tree(c, frags) for c in node.children]}
    return {'k': 'alien'}


def tree_shape(rt: dict, depth: int = 2) -> str:
    k = rt.get('k')
    if k in ('leaf', 'dup', 'alien') or depth == 0:
        return k
    if k == 'prod':
        return 'prod[' + ','.join(tree_shape(c[1], depth - 1) for c in rt['ch']) + ']'
    if k == 'sum':
        return 'sum[' + ','.join(tree_shape(c, depth - 1) for c in rt['ch']) + ']'
    return str(k)


def _contains_kind(T: dict, kinds) -> bool:
    return T['k'] in kinds or any(_contains_kind(x, kinds) for x in type_children(T))


def _tagged_layout(T: dict):
    if T['k'] == 'tagged':
        return T['lay']
    if T['k'] == 'union':      # the layouts of the union's own members come first (wrapping ones before internal)
        lays = [a['lay'] for a in T['alts'] if a['k'] == 'tagged']
        for lay in ('ext', 'adj', 'int'):
            if lay in lays:
                return lay
    for sub in type_children(T):
        r = _tagged_layout(sub)
        if r:
            return r
    return None


# ---------------------------------------------------------------------------------------
# C14: constructions
_idmap: dict = {}
_alive: list = []


def _small_id(o) -> int:
    _alive.append(o)          # keep alive: identities must not be recycled within a run
    return _idmap.setdefault(id(o), len(_idmap) + 1)


def _observe_instance(x, cls, supplied_names) -> tuple:
    facs = vocab.FACTORIES.get(cls) or vocab.FACTORIES.get(getattr(cls, '__origin__', None)) or {}
    ids, isfac = [], []
    for name, fac in facs.items():
        if name in supplied_names:
            continue
        try:
            val = getattr(x, name)
        except AttributeError:
            continue
        if val is fac:
            isfac.append(vocab.tok(name))
        else:
            ids.append(_small_id(val))
    return ids, isfac


def ev_construct(ident: int, c: Case) -> dict:
    con = c.v
    C = c.T
    cls = c.ty
    names = [vocab.text(C['fs'][i - 1]['n']) for (i, _v) in con['sup']]
    vals = [concretise(v) for (_i, v) in con['sup']]
    pos = vals[:con['posn']]
    kw = dict(zip(names[con['posn']:], vals[con['posn']:]))
    counter = vocab.HOOK_COUNTERS[cls]
    before = counter[0]
    f = cls if con['path'] == 'ctor' else cls.make_unchecked
    x = None
    try:
        x = f(*pos, **kw)
        out = {'k': 'ok', 'x': abstract(x)}
    except ConvertError:
        out = {'k': 'reject'}
    except OutOfVocab:
        out = {'k': 'ok', 'x': {'k': 'alien', 'c': 'unprojectable'}}
    except Exception as e:  # noqa
        out = {'k': 'exc', 'c': type(e).__name__}
    e = {'id': ident, 'op': 'construct', 'cls': C, 'ty': C, 'val': con, 'path': con['path'], 'posn': con['posn'], 'sup': con['sup'],
         'out': out, 'hook': counter[0] - before, 'ids': [], 'isfac': [], 'verbatim': 'na'}
    if x is not None:
        _alive.append(x)
        e['ids'], e['isfac'] = _observe_instance(x, cls, set(names))
        e['setdict'] = _set_only_dict(x)
        if con['path'] != 'ctor':
            try:
                e['verbatim'] = 'T' if all(getattr(x, n) is v for n, v in zip(names, vals)) else 'F'
            except AttributeError:
                e['verbatim'] = 'F'
    return e


def ev_created(ident: int, c: Case) -> dict:
    """from_data on a class, with the C14 observations (hook runs, factory products) added."""
    if c.T['k'] != 'cls':
        raise OutOfVocab('not a class')
    cls = c.ty
    counter = vocab.HOOK_COUNTERS[cls]
    before = counter[0]
    x = None
    try:
        x = pane.from_data(c.val, cls)
        out = {'k': 'ok', 'x': abstract(x)}
    except ConvertError:
        out = {'k': 'reject'}
    except OutOfVocab:
        out = {'k': 'ok', 'x': {'k': 'alien', 'c': 'unprojectable'}}
    except Exception as ex:  # noqa
        out = {'k': 'exc', 'c': type(ex).__name__}
    hook = counter[0] - before
    e = {'id': ident, 'op': 'created', 'ty': c.T, 'val': c.v, 'out': out, 'rerun': 'T', 'hook': hook, 'ids': [], 'isfac': []}
    if x is not None:
        _alive.append(x)
        try:
            supplied = set(_setrec(x, strict=True))
        except AttributeError:
            supplied = set()
        e['ids'], e['isfac'] = _observe_instance(x, cls, supplied)
        e['setdict'] = _set_only_dict(x)
    return e


def _set_only_dict(x) -> list:
    """the documented view of the record of explicitly set fields: instance.dict(set_only=True)"""
    try:
        return [[vocab.tok(k), abstract(v)] for k, v in x.dict(set_only=True).items()]
    except OutOfVocab:
        raise
    except Exception as ex:  # noqa
        return [[vocab.tok('?raised ' + type(ex).__name__), {'k': 'none'}]]


def _noop_handler(ty, args, *, handlers):
    return NotImplemented


def ev_from_data_custom(ident: int, c: Case) -> dict:
    """from_data under a second (behaviourally empty) handler set: a second converter is built for the
    same type; the outcome must be the one the semantics gives for the type alone."""
    if c.bf is not None:
        return ev_from_data(ident, c)
    out = outcome(pane.from_data, c.val, c.ty, custom=_noop_handler)
    out2 = outcome(pane.from_data, c.val, c.ty, custom=[_noop_handler])
    return {'id': ident, 'op': 'from_data', 'ty': c.T, 'val': c.v, 'out': out, 'rerun': 'T' if out == out2 else 'F'}
