"""Driver for the conversion properties (C01-C06, C09, C11-C13): runs the real pane code on
abstract (type, value) cases and records events for PaneTrace.tla. Holds no expected values."""
from __future__ import annotations

import copy
import warnings

import pane
from pane.convert import make_converter
from pane.errors import ConvertError, ParseInterrupt

from . import vocab
from .vocab import OutOfVocab, abstract, concretise, concretise_type

warnings.simplefilter('ignore')


def outcome(f, *a, **kw) -> dict:
    """Projected outcome of a call: ok(x) / reject / exc(class)."""
    try:
        x = f(*a, **kw)
    except ConvertError:
        return {'k': 'reject'}
    except Exception as e:  # noqa
        return {'k': 'exc', 'c': type(e).__name__}
    try:
        return {'k': 'ok', 'x': abstract(x)}
    except OutOfVocab:
        return {'k': 'ok', 'x': {'k': 'alien', 'c': type(x).__name__}}
    except RecursionError:
        return {'k': 'ok', 'x': {'k': 'alien', 'c': 'recursive'}}


class Case:
    __slots__ = ('T', 'v', 'sp', 'ty', 'val', 'err')

    def __init__(self, T, v, sp=0):
        self.T, self.v, self.sp = T, v, sp
        self.err = None
        try:
            self.ty = concretise_type(T, sp)
            self.val = concretise(v)
        except OutOfVocab as e:
            self.err = str(e)

    def describe(self) -> dict:
        return {'type': vocab.type_repr(getattr(self, 'ty', None)), 'value': repr(getattr(self, 'val', None))[:300],
                'abstract_type': self.T, 'abstract_value': self.v, 'spelling': self.sp}


def ev_from_data(ident: int, c: Case) -> dict:
    out = outcome(pane.from_data, c.val, c.ty)
    out2 = outcome(pane.from_data, c.val, c.ty)
    return {'id': ident, 'op': 'from_data', 'ty': c.T, 'val': c.v, 'out': out,
            'rerun': 'T' if out == out2 else 'F'}


def rerun_reverse(events: list, cases: dict) -> None:
    """Third execution, after the whole batch, in reverse order, with a cleared converter cache
    (history independence of verdict and value, C01 last sentence)."""
    try:
        make_converter.cache.clear()
    except Exception:
        pass
    for e in reversed(events):
        if e['op'] != 'from_data':
            continue
        c = cases[e['id']]
        if outcome(pane.from_data, c.val, c.ty) != e['out']:
            e['rerun'] = 'F'


# ---------------------------------------------------------------------------------------
# structural descent for minimal witnesses
def children(T: dict, v: dict) -> list:
    """Sub-cases (T_i, v_i) that the conversion of v to T is made of."""
    k = T['k']
    out = []
    if k in ('list', 'tuplevar', 'set', 'frozenset', 'deque'):
        if v['k'] == 'seq':
            out = [(T['e'], x) for x in v['xs']]
    elif k == 'tuple':
        if v['k'] == 'seq' and len(v['xs']) == len(T['es']):
            out = list(zip(T['es'], v['xs']))
    elif k in ('dict', 'defaultdict', 'ordereddict', 'counter'):
        if v['k'] == 'map':
            vt = {'k': 'int'} if k == 'counter' else T['vt']
            for p in v['ps']:
                out.append((T['kt'], p[0]))
                out.append((vt, p[1]))
    elif k == 'struct':
        if v['k'] == 'map':
            ft = {f[0]: f[1] for f in T['fs']}
            for p in v['ps']:
                if p[0]['k'] == 'str' and p[0]['s'] in ft:
                    out.append((ft[p[0]['s']], p[1]))
    elif k == 'union':
        out = [(a, v) for a in T['alts']]
    elif k == 'ann':
        out = [(T['t'], v)]
    elif k == 'sub':
        out = [(T['base'], v)]
    elif k == 'tvar':
        out = [(x, v) for x in T['ts']]
    elif k == 'cls':
        if v['k'] == 'map':
            for p in v['ps']:
                if p[0]['k'] == 'str':
                    for f in T['fs']:
                        if p[0]['s'] in f['ins']:
                            out.append((f['t'], p[1]))
        elif v['k'] == 'seq':
            pos = [f for f in T['fs'] if f['kw'] == 'F']
            out = [(f['t'], x) for f, x in zip(pos, v['xs'])]
    elif k == 'tagged':
        if v['k'] == 'map':
            for var in T['vars']:
                if T['lay'] == 'int':
                    body = {'k': 'map', 'f': v['f'], 'ps': [p for p in v['ps'] if not (p[0]['k'] == 'str' and p[0]['s'] == T['tag'])]}
                    out.append((var, body))
                elif T['lay'] == 'ext' and len(v['ps']) == 1:
                    out.append((var, v['ps'][0][1]))
                elif T['lay'] == 'adj':
                    for p in v['ps']:
                        if p[0]['k'] == 'str' and p[0]['s'] == T['ck']:
                            out.append((var, p[1]))
    return out


def tkind(T: dict) -> str:
    k = T['k']
    if k == 'sub':
        return 'sub:' + T['base']['k']
    if k == 'tagged':
        return 'tagged:' + T['lay']
    if k == 'enum':
        kinds = sorted({v['k'] for v in T['vs']})
        return 'enum:' + '+'.join(kinds)
    if k == 'tvar':
        return 'tvar:' + T['var']
    return k


_FACT_KINDS = {'decimal', 'fraction', 'date', 'time', 'datetime', 'pattern', 'patternb'}


def vkind(v: dict, T: dict | None = None) -> str:
    k = v['k']
    if k == 'seq':
        return 'seq:' + v['f']
    if k == 'map':
        return 'map:' + v['f']
    if k == 'bytes':
        return 'bytearray' if v['mut'] == 'T' else 'bytes'
    if k == 'int':
        return 'int:01' if v['n'] in (0, 1) else 'int'
    if k == 'float':
        return 'float' if v['sp'] == 'fin' else 'float:' + v['sp']
    if k == 'str':
        if T is None or T['k'] not in _FACT_KINDS:
            return 'str'
        f = vocab.facts(v['s'])
        tags = []
        if f['dec']['sp'] != 'no':
            tags.append('dec')
        if f['fr'][1] > 0:
            tags.append('frac')
        if f['fr'][1] < 0:
            tags.append('zerodiv')
        if f['date'] or f['time'] or f['dt']:
            tags.append('iso')
        if f['re'] != 'ok':
            tags.append('re-' + f['re'])
        return 'str' + (':' + '+'.join(tags) if tags else '')
    return k


def signature(clause: str, c: Case, ev: dict) -> dict:
    sig = {'clause': clause, 'type_kind': tkind(c.T), 'value_kind': vkind(c.v, c.T)}
    out = ev.get('out')
    if isinstance(out, dict):
        sig['outcome'] = out['k'] + (':' + out['c'] if out['k'] == 'exc' else '')
    return sig
