"""Regression over the kept seeded breakages: every seed is run (in its own scratch worktree, see seedtest)
against the first check listed in its meta.json `detected_by`; prints one line per seed and a summary.
usage: /venv/bin/python -m harness.seedall [workers] [seed-id-prefix]"""
from __future__ import annotations

import concurrent.futures
import json
import os
import subprocess
import sys

VERIF = os.path.dirname(os.path.dirname(os.path.abspath(__file__)))


def one(name: str):
    meta = json.load(open(os.path.join(VERIF, 'seeded', name, 'meta.json')))
    chk = (meta.get('detected_by') or [meta['breaks_property']])[0]
    p = subprocess.run(['/venv/bin/python', '-m', 'harness.seedtest', os.path.join(VERIF, 'seeded', name), chk],
                       capture_output=True, text=True, cwd=VERIF)
    line = [ln for ln in p.stdout.splitlines() if ln.startswith(name)]
    return name, chk, (line[0].split(': ', 1)[1].split()[0] if line else 'BROKEN'), p.stdout[-600:] if not line else ''


def main():
    workers = int(sys.argv[1]) if len(sys.argv) > 1 else 4
    prefix = sys.argv[2] if len(sys.argv) > 2 else ''
    names = sorted(n for n in os.listdir(os.path.join(VERIF, 'seeded')) if n.startswith(prefix)
                   and os.path.exists(os.path.join(VERIF, 'seeded', n, 'meta.json')))
    res = {}
    with concurrent.futures.ThreadPoolExecutor(workers) as ex:
        for name, chk, r, tail in ex.map(one, names):
            res[name] = r
            print(f'{name} {chk}: {r}', flush=True)
            if tail:
                print(tail)
    bad = {k: v for k, v in res.items() if v != 'DETECTED'}
    print(f'{len(res) - len(bad)} of {len(res)} detected; not detected: {bad}')
    return 1 if bad else 0


if __name__ == '__main__':
    sys.exit(main())
