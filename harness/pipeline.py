"""Spec-to-code and code-to-spec pipelines for the conversion family of properties."""
from __future__ import annotations

import time

from . import conv, engine, vocab
from .conv import Case


def cases_from_states(states: list) -> list:
    """(T, v) of every `case` state of a PaneGrammar dump."""
    return [(st['ty'], st['val']) for st in states if st.get('ph') == 'case']


def spread_spellings(tvs: list, extra: int = 1) -> list:
    """Each case with spelling 0 plus `extra` further spellings chosen round-robin, so that over
    the universe every spelling meets every context."""
    out = []
    for i, (T, v) in enumerate(tvs):
        out.append((T, v, 0))
        for j in range(extra):
            out.append((T, v, 1 + (i + j) % 5))
    return out


def run_events(rep, tvs: list, owned: set, *, label: str, make_event=conv.ev_from_data,
               reverse: bool = True, max_rounds: int = 8, sample_every: int = 997,
               child_event=None) -> dict:
    """Execute `make_event` on every (T, v, sp); validate the recorded events with TLC; shrink
    the rejected ones by structural descent (children re-executed and re-validated, TLC stays
    the only oracle); report the minimal rejected cases as witnesses.
    `owned` = names of the clauses that belong to the property being checked."""
    child_event = child_event or make_event
    stats = {'cases': len(tvs), 'executed': 0, 'skipped': 0, 'rounds': 0, 'outcomes': {}}
    seen: dict = {}          # (canon T, canon v, sp) -> id
    info: dict = {}          # id -> (case, event, owned failed clauses)
    kids_of: dict = {}       # id -> [ids]
    next_id = 0
    todo = [(T, v, sp, None) for (T, v, sp) in tvs]
    rnd = 0
    while todo and rnd < max_rounds:
        rnd += 1
        events, cases = [], {}
        for (T, v, sp, par) in todo:
            key = (vocab.canon(T), vocab.canon(v), sp)
            ident = seen.get(key)
            if ident is None:
                c = Case(T, v, sp)
                if c.err is not None:
                    stats['skipped'] += 1
                    continue
                next_id += 1
                ident = next_id
                try:
                    e = (make_event if par is None else child_event)(ident, c)
                except vocab.OutOfVocab:
                    stats['skipped'] += 1
                    continue
                seen[key] = ident
                cases[ident] = c
                events.append(e)
                if par is None:
                    stats['executed'] += 1
                    ok = e['out']['k'] if isinstance(e.get('out'), dict) else e['op']
                    stats['outcomes'][ok] = stats['outcomes'].get(ok, 0) + 1
                    if ident % sample_every == 1 and len(rep.samples) < 8:
                        rep.samples.append({'op': e['op'], 'type': vocab.type_repr(c.ty), 'value': repr(c.val)[:200],
                                            'outcome': e.get('out', {}).get('k') if isinstance(e.get('out'), dict) else None})
            if par is not None:
                kids_of.setdefault(par, []).append(ident)
        if reverse:
            conv.rerun_reverse(events, cases)
        bad = engine.validate(events, name=f'{label}-r{rnd}')
        rep.validated += len(events)
        evs = {e['id']: e for e in events}
        todo = []
        for ident, clauses in bad.items():
            mine = sorted(cl for cl in clauses if cl in owned)
            if not mine:
                # clauses nobody owns here (another property's, or the informational model-drift clause): counted only
                stats['events_with_clauses_not_owned_here'] = stats.get('events_with_clauses_not_owned_here', 0) + 1
                ex = stats.setdefault('examples_not_owned_here', [])
                if len(ex) < 5:
                    ex.append({'type': vocab.type_repr(cases[ident].ty)[:200], 'clauses': sorted(clauses)})
                continue
            c = cases[ident]
            info[ident] = (c, evs[ident], mine)
            for (kT, kv) in conv.children(c.T, c.v):
                todo.append((kT, kv, c.sp, ident))
        stats['rounds'] = rnd
    minimal = [i for i in info if not any(k in info for k in kids_of.get(i, []))]
    for i in minimal:
        c, e, mine = info[i]
        for cl in mine:
            rep.witness(conv.signature(cl, c, e), {**c.describe(), 'event': e, 'clause': cl})
    if vocab.CLASS_DEF_FAILURES:
        stats['class_definitions_refused'] = len(vocab.CLASS_DEF_FAILURES)
        stats['class_definitions_refused_examples'] = vocab.CLASS_DEF_FAILURES[:3]
    stats['rejected_events'] = len(info)
    stats['minimal_witnesses'] = len(minimal)
    rep.skipped += stats['skipped']
    return stats
