"""pytest plug-in (kept in /verif, loaded with `-p harness.recorder`): records every call of
pane.from_data / pane.convert made by the repository's own test-suite, as events for the TLC trace
spec. Calls whose type or value is outside the vocabulary are skipped and counted. Active only
when PANE_VERIF_RECORD names the output file (the guard reserved in MANIFEST.hooks)."""
from __future__ import annotations

import collections
import collections.abc
import datetime
import decimal
import enum
import fractions
import json
import os
import pathlib
import re
import typing as t

OUT = os.environ.get('PANE_VERIF_RECORD')
_events: list = []
_stats = collections.Counter()


def _abstract_type(ty, vocab):
    import pane
    from pane.annotations import Condition
    OutOfVocab = vocab.OutOfVocab
    scal = {type(None): 'none', bool: 'bool', int: 'int', float: 'float', complex: 'complex', str: 'str', bytes: 'bytes',
            bytearray: 'bytearray', decimal.Decimal: 'decimal', fractions.Fraction: 'fraction', datetime.date: 'date',
            datetime.time: 'time', datetime.datetime: 'datetime'}
    if ty is t.Any:
        return {'k': 'any'}
    if isinstance(ty, dict):
        return {'k': 'struct', 'fs': [[vocab.tok(k), _abstract_type(v, vocab)] for k, v in ty.items()]}
    if isinstance(ty, tuple):
        return {'k': 'tuple', 'es': [_abstract_type(x, vocab) for x in ty]}
    if isinstance(ty, type) and ty in scal:
        return {'k': scal[ty]}
    origin, args = t.get_origin(ty), t.get_args(ty)
    if origin is t.Union:
        return {'k': 'union', 'alts': [_abstract_type(a, vocab) for a in args]}
    if origin is t.Literal:
        return {'k': 'lit', 'vs': [vocab.abstract(a) for a in args]}
    if origin is t.Annotated:
        names = {'positive': 'pos', 'negative': 'neg', 'non-negative': 'nonneg', 'non-positive': 'nonpos', 'finite': 'finite',
                 'empty': 'empty', 'non-empty': 'nonempty'}
        cs = []
        for c in args[1:]:
            if not isinstance(c, Condition) or c.name not in names:
                raise OutOfVocab('annotation')
            cs.append({'k': names[c.name]})
        return {'k': 'ann', 't': _abstract_type(args[0], vocab), 'cs': cs}
    base = origin or ty
    if base in (re.Pattern, t.Pattern):
        return {'k': 'patternb' if args == (bytes,) else 'pattern'}
    if isinstance(base, type):
        seqs = {list: 'list', collections.abc.MutableSequence: 'list', collections.abc.Sequence: 'tuplevar', set: 'set',
                collections.abc.MutableSet: 'set', frozenset: 'frozenset', collections.abc.Set: 'frozenset', collections.deque: 'deque'}
        if base in seqs:
            return {'k': seqs[base], 'e': _abstract_type(args[0], vocab) if args else {'k': 'any'}}
        if base is tuple:
            if len(args) == 2 and args[1] is Ellipsis:
                return {'k': 'tuplevar', 'e': _abstract_type(args[0], vocab)}
            if not args and not hasattr(ty, '__args__'):
                return {'k': 'tuplevar', 'e': {'k': 'any'}}
            return {'k': 'tuple', 'es': [_abstract_type(a, vocab) for a in args if a != ()]}
        maps = {dict: 'dict', collections.abc.Mapping: 'dict', collections.abc.MutableMapping: 'dict',
                collections.defaultdict: 'defaultdict', collections.OrderedDict: 'ordereddict'}
        if base in maps:
            return {'k': maps[base], 'kt': _abstract_type(args[0], vocab) if args else {'k': 'any'},
                    'vt': _abstract_type(args[1], vocab) if len(args) > 1 else {'k': 'any'}}
        if base is collections.Counter:
            return {'k': 'counter', 'kt': _abstract_type(args[0], vocab) if args else {'k': 'any'}}
        if issubclass(base, os.PathLike) or base is os.PathLike:
            return {'k': 'path'}
        if issubclass(base, enum.Enum) and not issubclass(base, enum.Flag):
            name = base.__name__
            vocab.ENUM_CLASSES.setdefault(name, base)
            if vocab.ENUM_CLASSES[name] is not base:
                raise OutOfVocab('enum name clash')
            return {'k': 'enum', 'name': name, 'vs': [vocab.abstract(m.value) for m in base]}
        if issubclass(base, pane.PaneBase) and not args:
            return _abstract_class(base, vocab)
    raise OutOfVocab(f'type {ty!r}')


def _abstract_class(cls, vocab):
    import pane
    from pane.field import _MISSING
    if any('__post_init__' in k.__dict__ for k in cls.__mro__) or getattr(cls, '__parameters__', ()):
        raise vocab.OutOfVocab('hooks / generics are not described')
    info = cls.__pane_info__
    if info.opts.class_handlers:
        raise vocab.OutOfVocab('class handlers')
    fs = []
    for f in info.fields:
        if f.converter is not None:
            raise vocab.OutOfVocab('field converter')
        if f.default is not _MISSING:
            d = {'k': 'val', 'v': vocab.abstract(f.default)}
        elif f.default_factory is not None:
            d = {'k': 'fac', 'v': vocab.abstract(f.default_factory())}
        else:
            d = {'k': 'nodef', 'v': {'k': 'none'}}
            if not f.init:
                # a field pane never touches and that has no default: what the attribute holds is the class'
                # own business (outside the class family the specification describes)
                raise vocab.OutOfVocab('init=False field without default')
        fs.append({'n': vocab.tok(f.name), 't': _abstract_type(f.type, vocab), 'd': d, 'kw': 'T' if f.kw_only else 'F',
                   'ins': [vocab.tok(n) for n in f.in_names], 'out': vocab.tok(f.out_name), 'ex': 'T' if f.exclude else 'F',
                   'init': 'T' if f.init else 'F'})
    name = cls.__name__
    return {'k': 'cls', 'name': name, 'fs': fs, 'inf': [x for x in ('struct', 'tuple') if x in info.opts.in_format],
            'outf': info.opts.out_format, 'extra': 'T' if info.opts.allow_extra else 'F', 'hook': {'k': 'nohook'}}


def _record(api, val, ty, kwargs, run):
    from harness import vocab
    from pane.errors import ConvertError
    _stats['calls'] += 1
    try:
        out = {'k': 'ok', 'x': None}
        try:
            res = run()
        except ConvertError:
            out = {'k': 'reject'}
            res = None
            raise
        except Exception as e:  # noqa
            out = {'k': 'exc', 'c': type(e).__name__}
            raise
        finally:
            try:
                if kwargs.get('custom') is not None:
                    raise vocab.OutOfVocab('custom handlers')
                T = _abstract_type(ty, vocab)
                v = vocab.abstract(val)
                if not _is_data(v):
                    raise vocab.OutOfVocab('typed argument')
                if out['k'] == 'ok':
                    out['x'] = vocab.abstract(res)
                _events.append({'id': len(_events) + 1, 'op': 'from_data', 'ty': T, 'val': v, 'out': out, 'rerun': 'T', 'api': api})
                _stats['recorded'] += 1
            except vocab.OutOfVocab:
                _stats['skipped'] += 1
            except Exception:  # noqa
                _stats['recorder_errors'] += 1
        return res
    except BaseException:
        raise


def _is_data(v) -> bool:
    k = v['k']
    if k in ('none', 'bool', 'int', 'float', 'complex', 'str', 'bytes', 'bigint'):
        return True
    if k == 'seq':
        return v['f'] in ('list', 'tuple', 'other') and all(_is_data(x) for x in v['xs'])
    if k == 'map':
        return all(_is_data(p[0]) and _is_data(p[1]) for p in v['ps'])
    return False


def pytest_configure(config):
    if not OUT:
        return
    import sys
    import pane
    import pane.classes
    pc = sys.modules['pane.convert']     # (the name pane.convert is shadowed by the function of that name)
    orig_from, orig_conv = pc.from_data, pc.convert

    def from_data(val, ty, **kw):
        return _record('from_data', val, ty, kw, lambda: orig_from(val, ty, **kw))

    def convert(val, ty, **kw):
        return _record('convert', val, ty, kw, lambda: orig_conv(val, ty, **kw))
    for mod in (pc, pane, sys.modules['pane.classes']):
        mod.from_data = from_data
        mod.convert = convert


def pytest_unconfigure(config):
    if not OUT:
        return
    from harness import vocab
    with open(OUT, 'w') as f:
        json.dump({'events': _events, 'stats': dict(_stats), 'facts': vocab.facts_table(),
                   'texts': {k: (v if isinstance(v, str) else None) for k, v in vocab._texts.items()}}, f)
