"""C20 driver: every identifier enumerated by TLC (spec/PaneRename.tla) and seeded random longer
ones go through the real pane.field.rename_field; the recorded results are validated by TLC."""
from __future__ import annotations

import itertools
import random
import types

import pane
from pane.field import rename_field

from . import engine

STYLES = ['snake', 'scream', 'kebab', 'camel', 'pascal']


def code(ch: str):
    if 'a' <= ch <= 'z':
        return ord(ch) - 96
    if 'A' <= ch <= 'Z':
        return 100 + ord(ch) - 64
    if ch == '_':
        return 200
    if ch == '-':
        return 201
    return None


def codes(s: str):
    out = [code(c) for c in s]
    return None if any(c is None for c in out) else out


def text(cs) -> str:
    return ''.join(chr(96 + c) if c < 100 else chr(64 + c - 100) if c < 200 else '_' if c == 200 else '-' for c in cs)


def _res(f, *a):
    try:
        r = f(*a)
    except Exception as e:  # noqa
        return {'k': 'exc', 'c': type(e).__name__}, None
    cs = codes(r) if isinstance(r, str) else None
    if cs is None:
        return {'k': 'alien'}, r
    return {'k': 'ok', 's': cs}, r


def ev_rename(ident: int, name: str, style: str) -> dict:
    out, r = _res(rename_field, name, style)
    again = back = {'k': 'skip'}
    cross = []
    if out['k'] == 'ok':
        again, _ = _res(rename_field, r, style)
        back, _ = _res(rename_field, r, 'snake')
        cross = [{'style': s2, 'out': _res(rename_field, r, s2)[0]} for s2 in STYLES]      # pairs of styles
    return {'id': ident, 'op': 'rename', 'name': codes(name), 'style': style, 'out': out, 'again': again, 'back': back, 'cross': cross}


_cls_n = [0]


def class_events(start: int, names: list, style: str) -> list:
    """Keys written by a class with class-level rename= and by dict(rename=) for fields `names`."""
    _cls_n[0] += 1
    ann = {n: int for n in names}
    ns = {'__annotations__': ann}
    evs = []
    try:
        cls = types.new_class(f'R{_cls_n[0]}', (pane.PaneBase,), {'rename': style}, lambda d: d.update(ns))
        obj = cls(**{n: i for i, n in enumerate(names)})
        keys1 = list(obj.into_data().keys())
        keys2 = list(obj.dict(rename=style).keys())
        keys3 = list(obj.dict(set_only=True, rename=style).keys())      # (every field was given to the constructor)
        if sorted(keys3) != sorted(keys2):
            keys2 = keys3 if len(keys3) == len(keys2) else ['?'] * len(keys2)
        else:
            keys2 = [k for k in keys2]
        back = cls.from_data(obj.into_data())
        ok = back == obj
    except Exception as e:  # noqa
        for i, n in enumerate(names):
            evs.append({'id': start + i, 'op': 'clsrename', 'name': codes(n), 'style': style, 'out': {'k': 'exc', 'c': type(e).__name__}})
        return evs
    i = 0
    for n, k1, k2 in zip(names, keys1, keys2):
        for k in (k1, k2):
            cs = codes(k)
            evs.append({'id': start + i, 'op': 'clsrename', 'name': codes(n), 'style': style,
                        'out': {'k': 'ok', 's': cs} if cs is not None and ok else {'k': 'alien'}})
            i += 1
    return evs


def short_strings(maxlen: int) -> list:
    out = []
    for n in range(1, maxlen + 1):
        for t in itertools.product('ab_-', repeat=n):
            out.append(''.join(t))
    return out


def random_names(seed: int, n: int) -> list:
    rnd = random.Random(seed)
    out = []
    for _ in range(n):
        words = [''.join(rnd.choice('abcdefghijklmnopqrstuvwxyz') for _ in range(rnd.randint(2, 12))) for _ in range(rnd.randint(1, 6))]
        out.append('_'.join(words))
    return out


def run(rep, tier: str) -> None:
    cfg = 'MC_Rename_q.cfg' if tier == 'quick' else 'MC_Rename_t.cfg'
    res = engine.model_check('MC_Rename', cfg, dump=True, facts=False)
    rep.add_mc(res, cfg)
    if res.violated:
        rep.witness({'clause': 'law-of-spec', 'type_kind': ','.join(res.violated), 'value_kind': ''}, {'tlc_output_tail': res.out[-3000:]})
        return
    states = engine.dump_states(res)
    names = sorted({text(_snake(st['ws'])) for st in states if st['ph'] == 'name'})
    rep.exhaustive = True
    events, desc = [], {}
    ident = 0
    for nm in names:
        for s in STYLES:
            ident += 1
            events.append(ev_rename(ident, nm, s))
            desc[ident] = (nm, s)
    for nm in short_strings(5 if tier == 'quick' else 6):
        for s in (STYLES if tier != 'quick' else ['snake', 'camel', 'pascal']):
            ident += 1
            events.append(ev_rename(ident, nm, s))
            desc[ident] = (nm, s)
    for nm in random_names(engine.seed(), 4000 if tier == 'quick' else 60000):
        for s in STYLES:
            ident += 1
            events.append(ev_rename(ident, nm, s))
            desc[ident] = (nm, s)
    step = max(1, len(names) // (150 if tier == 'quick' else 1500))
    sample = names[::step]
    for i in range(0, len(sample) - 1, 2):
        for s in STYLES:
            evs = class_events(ident + 1, [sample[i], sample[i + 1]], s)
            for e in evs:
                desc[e['id']] = (text(e['name']), s)
            ident += len(evs) + 1
            events.extend(evs)
    bad = engine.validate(events, module='PaneRenameTrace', cfg='PaneRenameTrace.cfg', name='c20')
    rep.validated += len(events)
    evs = {e['id']: e for e in events}
    for ident, clauses in bad.items():
        nm, s = desc[ident]
        e = evs[ident]
        for cl in clauses:
            shape = 'words=%d' % (nm.count('_') + 1) if nm.replace('_', '').isalpha() and '__' not in nm.strip('_') else 'malformed'
            rep.witness({'clause': cl, 'type_kind': e['op'] + ':' + s, 'value_kind': shape,
                         'outcome': e['out']['k'] + (':' + e['out'].get('c', '') if e['out']['k'] == 'exc' else '')},
                        {'name': nm, 'style': s, 'event': e})
    rep.samples += [{'name': nm, 'style': s, 'result': text(e['out']['s']) if e['out']['k'] == 'ok' else e['out']}
                    for (nm, s), e in [(desc[i], evs[i]) for i in list(evs)[:: max(1, len(evs) // 6)]][:6]]
    rep.extra['replay'] = {'enumerated_names': len(names), 'events': len(events), 'rejected': len(bad)}


def _snake(ws):
    out = []
    for i, w in enumerate(ws):
        if i:
            out.append(200)
        out.extend(w)
    return out
