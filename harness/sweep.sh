#!/bin/sh
# usage: harness/sweep.sh <tier> <id>...   runs the checks one after the other, one summary line each
tier=$1; shift
for c in "$@"; do
  s=$(date +%s)
  ./check "$c" --tier "$tier" > "sweep-$c.out" 2> "sweep-$c.err"; rc=$?
  echo "$c tier=$tier exit=$rc secs=$(( $(date +%s) - s )) $(grep -c '^VIOLATION' sweep-$c.out) violation lines, $(grep -c '^KNOWN-FINDING' sweep-$c.out) known"
done
