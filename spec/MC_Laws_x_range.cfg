SPECIFICATION Spec
CONSTANTS
  StrFacts <- LoadedFacts
  MaxDepth = 1
  Focus = "shipped"
  OuterWrap = "few"
INVARIANT NoRangeGap
CHECK_DEADLOCK FALSE
