SPECIFICATION Spec
CONSTANTS
  StrFacts <- LoadedFacts
  MaxDepth = 1
  Focus = "matrix"
  OuterWrap = "few"
INVARIANT VerdictTotal
INVARIANT ImgDefined
INVARIANT UnionLaw
CHECK_DEADLOCK FALSE
