SPECIFICATION TraceSpec
CONSTANTS
  Keys = {1, 2, 3}
  MaxSize = 0
  LThreads = {1, 2}
  LMaxLevel = 100000
INVARIANT Report
POSTCONDITION TraceAccepted
CHECK_DEADLOCK FALSE
