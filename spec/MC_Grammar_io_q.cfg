SPECIFICATION Spec
CONSTANTS
  StrFacts <- LoadedFacts
  MaxDepth = 0
  Focus = "io"
  OuterWrap = "few"
INVARIANT VerdictTotal
INVARIANT ImgDefined
CHECK_DEADLOCK FALSE
