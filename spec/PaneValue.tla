------------------------------ MODULE PaneValue ------------------------------
(***************************************************************************)
(* C16: value semantics of pane dataclasses - equality, order, hash,       *)
(* frozen, copy, repr - over the option cube.                              *)
(*                                                                         *)
(* A class of the cube: [eq, order, frozen, uh (unsafe_hash), xh (explicit *)
(* __hash__ in the body) : "T"|"F", gen : "T"|"F" (generic in its first    *)
(* field), fl : << [cmp, hash, repr : "T"|"F"] .. >> per field].           *)
(* Instances are sequences of small integers (one per field).              *)
(*                                                                         *)
(* The hash rule table is the one of the standard library's dataclasses    *)
(* documentation (unsafe_hash, eq, frozen, explicit __hash__).             *)
(***************************************************************************)
EXTENDS Integers, Sequences, FiniteSets, TLC

CONSTANTS Vals, NFields, FlagSets

B == {"T", "F"}
HashAction(c) ==
  IF c.uh = "T" THEN (IF c.xh = "T" THEN "raise" ELSE "gen")
  ELSE IF c.xh = "T" THEN "explicit"
  ELSE IF c.eq = "F" THEN "inherit"          \* object.__hash__: identity based
  ELSE IF c.frozen = "T" THEN "gen" ELSE "none"

CmpIdx(c)  == {i \in DOMAIN c.fl : c.fl[i].cmp = "T"}
HashIdx(c) == {i \in DOMAIN c.fl : c.fl[i].hash = "T"}
FieldsEq(c, a, b) == \A i \in CmpIdx(c) : a[i] = b[i]

(* rel: "same" class; "generic" = the same generic class with different parameters (or none);   *)
(* "other" = another class with the same fields.  ident: a and b are the same object.          *)
EqExp(c, a, b, rel, ident) ==
  IF c.eq = "F" THEN ident
  ELSE IF rel = "other" THEN FALSE ELSE FieldsEq(c, a, b)

(* -1, 0, 1, or 2 = NotImplemented *)
OrdExp(c, a, b, rel) ==
  IF c.order = "F" \/ rel # "same" THEN 2
  ELSE LET D == {i \in CmpIdx(c) : a[i] # b[i]} IN
       IF D = {} THEN 0
       ELSE LET i == CHOOSE i \in D : \A j \in D : i <= j IN IF a[i] > b[i] THEN 1 ELSE -1
Rel(o, what) ==    \* expected answer of __lt__ etc: "T", "F" or "NI"
  IF o = 2 THEN "NI"
  ELSE CASE what = "lt" -> IF o < 0 THEN "T" ELSE "F"
         [] what = "le" -> IF o <= 0 THEN "T" ELSE "F"
         [] what = "gt" -> IF o > 0 THEN "T" ELSE "F"
         [] what = "ge" -> IF o >= 0 THEN "T" ELSE "F"
HashTuple(c, a) == [i \in HashIdx(c) |-> a[i]]

(* A subclass S(C, **so) that declares one more (compared, hashed) field z.  so = "plain": no option of its own, *)
(* everything is inherited and regenerated over all fields.  so = "eqF": eq=False - S gets no __eq__ of its own *)
(* and INHERITS C's, which looks at C's fields only; without unsafe_hash it likewise inherits C's __hash__.     *)
(* An explicit __hash__ in C's body is not in S's body.                                                         *)
SubOpts == {"plain", "eqF"}
SubCls(c, so) == [c EXCEPT !.xh = "F", !.eq = IF so = "eqF" THEN "F" ELSE c.eq]
SubEqExp(c, so, a, b, za, zb) ==          \* two distinct instances of S
  IF c.eq = "F" THEN FALSE
  ELSE IF so = "eqF" THEN FieldsEq(c, a, b)
  ELSE FieldsEq(c, a, b) /\ za = zb
(* "own" = generated over C's hash fields and z; "base" = C's generated hash; "const" = C's explicit one;      *)
(* "ident" = object.__hash__; "none" = unhashable                                                              *)
SubHashKind(c, so) ==
  LET act == HashAction(SubCls(c, so)) IN
  IF act = "gen" THEN "own" ELSE IF act = "none" THEN "none"
  ELSE LET b == HashAction(c) IN
       IF b = "gen" THEN "base" ELSE IF b = "explicit" THEN "const" ELSE IF b = "none" THEN "none" ELSE "ident"
SubHashEqExp(c, so, a, b, za, zb) ==      \* do the hashes of two distinct instances have to agree?  (only for own / base / const)
  LET k == SubHashKind(c, so) IN
  IF k = "own" THEN HashTuple(c, a) = HashTuple(c, b) /\ za = zb
  ELSE IF k = "base" THEN HashTuple(c, a) = HashTuple(c, b) ELSE k = "const"
(* "unsafe_hash" with an inherited __eq__ is unsafe by name (the standard library behaves alike): outside the law *)
SubLawApplies(c, so) == HashIdx(c) \subseteq CmpIdx(c) /\ ~(so = "eqF" /\ c.uh = "T") /\ SubHashKind(c, so) \in {"own", "base", "const"}

-----------------------------------------------------------------------------
(* the cube as a state graph: a class, then up to three instances *)
VARIABLES cls, xa, xb, xc, ph
vvars == <<cls, xa, xb, xc, ph>>
Classes == [eq : B, order : B, frozen : B, uh : B, xh : B, gen : B, fl : FlagSets]
Insts == [1..NFields -> Vals]
VInit == ph = "class" /\ cls \in Classes /\ xa = <<>> /\ xb = <<>> /\ xc = <<>>
PickInstances == /\ ph = "class" /\ HashAction(cls) # "raise"
                 /\ xa' \in Insts /\ xb' \in Insts /\ xc' \in Insts /\ ph' = "insts" /\ UNCHANGED cls
VNext == PickInstances
VSpec == VInit /\ [][VNext]_vvars

(* laws of the specification (what C16 calls reflexive, symmetric, transitive, trichotomy,     *)
(* equal-implies-equal-hash), for same-class instances                                         *)
E(a, b) == EqExp(cls, a, b, "same", a = b /\ FALSE)     \* distinct objects
EqEquivalence ==
  (ph = "insts" /\ cls.eq = "T") =>
     /\ E(xa, xa) /\ (E(xa, xb) => E(xb, xa)) /\ ((E(xa, xb) /\ E(xb, xc)) => E(xa, xc))
Trichotomy ==
  (ph = "insts" /\ cls.eq = "T" /\ cls.order = "T") =>
     LET o == OrdExp(cls, xa, xb, "same") IN
     Cardinality({w \in {"lt", "eq", "gt"} :
        IF w = "eq" THEN E(xa, xb) ELSE Rel(o, w) = "T"}) = 1
OrderTransitive ==
  (ph = "insts" /\ cls.order = "T") =>
     ((OrdExp(cls, xa, xb, "same") < 0 /\ OrdExp(cls, xb, xc, "same") < 0) => OrdExp(cls, xa, xc, "same") < 0)
OrderAntisymmetric ==
  (ph = "insts" /\ cls.order = "T") => OrdExp(cls, xa, xb, "same") = -OrdExp(cls, xb, xa, "same")
(* with hash following compare (as the stdlib also asks), equal instances hash equal *)
EqualHashEqual ==
  (ph = "insts" /\ HashAction(cls) = "gen" /\ HashIdx(cls) \subseteq CmpIdx(cls) /\ cls.eq = "T") =>
     (E(xa, xb) => HashTuple(cls, xa) = HashTuple(cls, xb))
(* ... and so do equal instances of a subclass that adds a field, whether it regenerates or inherits __eq__ / __hash__ *)
SubEqualHashEqual ==
  (ph = "insts" /\ HashAction(cls) # "raise") =>
     \A so \in SubOpts, za \in Vals, zb \in Vals :
        (SubLawApplies(cls, so) /\ SubEqExp(cls, so, xa, xb, za, zb)) => SubHashEqExp(cls, so, xa, xb, za, zb)
=============================================================================
