------------------------------ MODULE PaneValue ------------------------------
(***************************************************************************)
(* C16: value semantics of pane dataclasses - equality, order, hash,       *)
(* frozen, copy, repr - over the option cube.                              *)
(*                                                                         *)
(* A class of the cube: [eq, order, frozen, uh (unsafe_hash), xh (explicit *)
(* __hash__ in the body) : "T"|"F", gen : "T"|"F" (generic in its first    *)
(* field), fl : << [cmp, hash, repr : "T"|"F"] .. >> per field].           *)
(* Instances are sequences of small integers (one per field).              *)
(*                                                                         *)
(* The hash rule table is the one of the standard library's dataclasses    *)
(* documentation (unsafe_hash, eq, frozen, explicit __hash__).             *)
(***************************************************************************)
EXTENDS Integers, Sequences, FiniteSets, TLC

CONSTANTS Vals, NFields, FlagSets

B == {"T", "F"}
HashAction(c) ==
  IF c.uh = "T" THEN (IF c.xh = "T" THEN "raise" ELSE "gen")
  ELSE IF c.xh = "T" THEN "explicit"
  ELSE IF c.eq = "F" THEN "inherit"          \* object.__hash__: identity based
  ELSE IF c.frozen = "T" THEN "gen" ELSE "none"

CmpIdx(c)  == {i \in DOMAIN c.fl : c.fl[i].cmp = "T"}
HashIdx(c) == {i \in DOMAIN c.fl : c.fl[i].hash = "T"}
FieldsEq(c, a, b) == \A i \in CmpIdx(c) : a[i] = b[i]

(* rel: "same" class; "generic" = the same generic class with different parameters (or none);   *)
(* "other" = another class with the same fields.  ident: a and b are the same object.          *)
EqExp(c, a, b, rel, ident) ==
  IF c.eq = "F" THEN ident
  ELSE IF rel = "other" THEN FALSE ELSE FieldsEq(c, a, b)

(* -1, 0, 1, or 2 = NotImplemented *)
OrdExp(c, a, b, rel) ==
  IF c.order = "F" \/ rel # "same" THEN 2
  ELSE LET D == {i \in CmpIdx(c) : a[i] # b[i]} IN
       IF D = {} THEN 0
       ELSE LET i == CHOOSE i \in D : \A j \in D : i <= j IN IF a[i] > b[i] THEN 1 ELSE -1
Rel(o, what) ==    \* expected answer of __lt__ etc: "T", "F" or "NI"
  IF o = 2 THEN "NI"
  ELSE CASE what = "lt" -> IF o < 0 THEN "T" ELSE "F"
         [] what = "le" -> IF o <= 0 THEN "T" ELSE "F"
         [] what = "gt" -> IF o > 0 THEN "T" ELSE "F"
         [] what = "ge" -> IF o >= 0 THEN "T" ELSE "F"
HashTuple(c, a) == [i \in HashIdx(c) |-> a[i]]

-----------------------------------------------------------------------------
(* the cube as a state graph: a class, then up to three instances *)
VARIABLES cls, xa, xb, xc, ph
vvars == <<cls, xa, xb, xc, ph>>
Classes == [eq : B, order : B, frozen : B, uh : B, xh : B, gen : B, fl : FlagSets]
Insts == [1..NFields -> Vals]
VInit == ph = "class" /\ cls \in Classes /\ xa = <<>> /\ xb = <<>> /\ xc = <<>>
PickInstances == /\ ph = "class" /\ HashAction(cls) # "raise"
                 /\ xa' \in Insts /\ xb' \in Insts /\ xc' \in Insts /\ ph' = "insts" /\ UNCHANGED cls
VNext == PickInstances
VSpec == VInit /\ [][VNext]_vvars

(* laws of the specification (what C16 calls reflexive, symmetric, transitive, trichotomy,     *)
(* equal-implies-equal-hash), for same-class instances                                         *)
E(a, b) == EqExp(cls, a, b, "same", a = b /\ FALSE)     \* distinct objects
EqEquivalence ==
  (ph = "insts" /\ cls.eq = "T") =>
     /\ E(xa, xa) /\ (E(xa, xb) => E(xb, xa)) /\ ((E(xa, xb) /\ E(xb, xc)) => E(xa, xc))
Trichotomy ==
  (ph = "insts" /\ cls.eq = "T" /\ cls.order = "T") =>
     LET o == OrdExp(cls, xa, xb, "same") IN
     Cardinality({w \in {"lt", "eq", "gt"} :
        IF w = "eq" THEN E(xa, xb) ELSE Rel(o, w) = "T"}) = 1
OrderTransitive ==
  (ph = "insts" /\ cls.order = "T") =>
     ((OrdExp(cls, xa, xb, "same") < 0 /\ OrdExp(cls, xb, xc, "same") < 0) => OrdExp(cls, xa, xc, "same") < 0)
OrderAntisymmetric ==
  (ph = "insts" /\ cls.order = "T") => OrdExp(cls, xa, xb, "same") = -OrdExp(cls, xb, xa, "same")
(* with hash following compare (as the stdlib also asks), equal instances hash equal *)
EqualHashEqual ==
  (ph = "insts" /\ HashAction(cls) = "gen" /\ HashIdx(cls) \subseteq CmpIdx(cls) /\ cls.eq = "T") =>
     (E(xa, xb) => HashTuple(cls, xa) = HashTuple(cls, xb))
=============================================================================
