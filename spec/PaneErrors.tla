----------------------------- MODULE PaneErrors -----------------------------
(***************************************************************************)
(* Error trees (C07) and their rendering (C08).                            *)
(*                                                                         *)
(* Trees as projected by the harness (message wording is carried as opaque *)
(* tokens and never compared with a prediction):                           *)
(*   [k |-> "wt"|"wl"|"cf", exp, act |-> value, cause |-> token or ""]     *)
(*      (wl additionally lo, hi, len)                                      *)
(*   [k |-> "dup", key |-> atom, aliases |-> <<tokens>>]                   *)
(*   [k |-> "prod", exp, ch |-> << <<key atom, tree>> .. >>,               *)
(*         missing |-> <<tokens>>, extra |-> <<tokens>>, act |-> value]    *)
(*   [k |-> "sum", ch |-> <<tree..>>]                                      *)
(* Keys are atoms: positions [k|->"int", n|->i] (0-based), names           *)
(* [k|->"str", s|->token].                                                 *)
(*                                                                         *)
(* TreeBad(T, v, tr) is the set of names of violated clauses (empty = the  *)
(* tree is one the property allows for the rejected conversion of v to T): *)
(*  node-kind        a composite with an element rejected on its own must  *)
(*                   be a product node, a union a sum node, else a leaf    *)
(*  children-keys    children are keyed by exactly the positions / keys    *)
(*                   whose element is rejected on its own (don't-care      *)
(*                   elements may or may not appear)                       *)
(*  missing-fields / extra-fields   exactly the absent required fields /   *)
(*                   the unknown keys                                      *)
(*  sum-arity        one child per member, in declaration order            *)
(*  leaf-actual      every leaf records the offending sub-value itself     *)
(*  (the recursion through children is what "each child is the tree of     *)
(*   the element's own type for that sub-value" means structurally; the    *)
(*   trace clause child-not-standalone compares with recorded trees)       *)
(***************************************************************************)
EXTENDS PaneSem

KeyInt(i) == [k |-> "int", n |-> i]
IsLeafT(tr) == tr.k \in {"wt", "wl", "cf"}
LeafBad(tr, v) == IF ~IsLeafT(tr) THEN {"node-kind"} ELSE IF tr.act = v THEN {} ELSE {"leaf-actual"}

(* an enum reports the value after conversion to the kind of its member values (False as 0): *)
(* equal under Python's ==, which is what is asked of it here                                 *)
RECURSIVE AllLeavesAct(_, _)
AllLeavesAct(tr, v) ==
  CASE IsLeafT(tr) -> tr.act = v \/ (IsAtom(v) /\ tr.act.k \in AtomKinds /\ PyEq(tr.act, v))
    [] tr.k = "sum" -> \A i \in DOMAIN tr.ch : AllLeavesAct(tr.ch[i], v)
    [] OTHER -> FALSE

(* members of a union as typing presents them: nested unions flattened, duplicates dropped *)
RECURSIVE FlatSeq(_)
FlatSeq(alts) ==
  IF alts = <<>> THEN <<>>
  ELSE (IF Head(alts).k = "union" THEN FlatSeq(Head(alts).alts) ELSE <<Head(alts)>>) \o FlatSeq(Tail(alts))
Dedup(s) == SelectSeq([i \in DOMAIN s |-> [x |-> s[i], first |-> \A j \in 1..(i - 1) : s[j] # s[i]]],
                      LAMBDA r : r.first)
FlatAlts(T) == LET d == Dedup(FlatSeq(T.alts)) IN [i \in DOMAIN d |-> d[i].x]

RECURSIVE TreeBad(_, _, _), ProdBad(_, _, _, _, _, _), ChildBad(_, _, _, _)

(* slots: << [key, T, v] >> the structural children with the key under which a failure is reported *)
ProdBad(tr, v, slots, missing, extra, dupkeys) ==
  IF tr.k # "prod" THEN {"node-kind"}
  ELSE LET rej == {slots[i].key : i \in {j \in DOMAIN slots : Verdict(slots[j].T, slots[j].v) = "R"}} \cup dupkeys
           dc  == {slots[i].key : i \in {j \in DOMAIN slots : Verdict(slots[j].T, slots[j].v) = "D"}}
           keys == {tr.ch[i][1] : i \in DOMAIN tr.ch}
       IN (IF rej \subseteq keys /\ keys \subseteq (rej \cup dc) THEN {} ELSE {"children-keys"})
          \cup (IF Range(tr.missing) = missing THEN {} ELSE {"missing-fields"})
          \cup (IF Range(tr.extra) = extra THEN {} ELSE {"extra-fields"})
          \cup (IF tr.act = v THEN {} ELSE {"product-actual"})
          \cup UNION { ChildBad(tr.ch[i][1], tr.ch[i][2], slots, dupkeys) : i \in DOMAIN tr.ch }

ChildBad(key, sub, slots, dupkeys) ==
  IF key \in dupkeys THEN (IF sub.k = "dup" THEN {} ELSE {"duplicate-node"})
  ELSE LET S == {i \in DOMAIN slots : slots[i].key = key /\ Verdict(slots[i].T, slots[i].v) = "R"} IN
       IF S = {} THEN {}
       \* (a mapping entry has two slots under one key; when the other one is a don't-care that the code
       \*  happens to refuse, the single child may be its report)
       ELSE IF \E i \in DOMAIN slots : slots[i].key = key /\ Verdict(slots[i].T, slots[i].v) = "D" THEN {}
       ELSE IF \E i \in S : TreeBad(slots[i].T, slots[i].v, sub) = {} THEN {}
       ELSE UNION { TreeBad(slots[i].T, slots[i].v, sub) : i \in S }

NoneRejected(slots) == \A i \in DOMAIN slots : Verdict(slots[i].T, slots[i].v) # "R"
AllStrKeys(v) == \A i \in DOMAIN v.ps : v.ps[i][1].k = "str"

ClsTreeBad(C, v, tr) ==
  IF IsMapV(v) THEN
     IF "struct" \notin Range(C.inf) THEN LeafBad(tr, v)
     ELSE IF ~AllStrKeys(v) THEN {}
     ELSE LET b == BindMap(C, v)
              isFirst(i) == \A j \in b.known : j < i => b.idx[j] # b.idx[i]
              firsts == {i \in b.known : isFirst(i)}
              fseq == SelectSeq([i \in DOMAIN v.ps |-> i], LAMBDA i : i \in firsts)
              slots == [n \in DOMAIN fseq |-> [key |-> v.ps[fseq[n]][1], T |-> C.fs[b.idx[fseq[n]]].t, v |-> v.ps[fseq[n]][2]]]
              dupkeys == {v.ps[i][1] : i \in b.known \ firsts}
              missing == {C.fs[j].n : j \in b.missing}
              extra == IF C.extra = "T" THEN {} ELSE {v.ps[i][1].s : i \in b.extra}
          IN IF NoneRejected(slots) /\ dupkeys = {} /\ missing = {} /\ extra = {}
             THEN (IF \A n \in DOMAIN slots : Verdict(slots[n].T, slots[n].v) = "A" THEN LeafBad(tr, v) ELSE {})
             ELSE ProdBad(tr, v, slots, missing, extra, dupkeys)
  ELSE IF IsSeqV(v) THEN
     IF "tuple" \notin Range(C.inf) THEN LeafBad(tr, v)
     ELSE LET pos == PosFields(C) IN
          IF Len(v.xs) < ReqCount(C) \/ Len(v.xs) > Len(pos)
          THEN (IF tr.k # "wl" THEN {"node-kind"}
                ELSE (IF tr.act = v THEN {} ELSE {"leaf-actual"})
                     \cup (IF tr.lo = ReqCount(C) /\ tr.hi = Len(pos) /\ tr.len = Len(v.xs) THEN {} ELSE {"length-bounds"}))
          ELSE LET slots == [i \in DOMAIN v.xs |-> [key |-> KeyInt(i - 1), T |-> pos[i].t, v |-> v.xs[i]]] IN
               IF NoneRejected(slots)
               THEN (IF \A n \in DOMAIN slots : Verdict(slots[n].T, slots[n].v) = "A" THEN LeafBad(tr, v) ELSE {})
               ELSE ProdBad(tr, v, slots, {}, {}, {})
  ELSE LeafBad(tr, v)

TreeBad(T, v, tr) ==
  CASE T.k \in ScalarKinds \cup {"lit"} -> LeafBad(tr, v)
    [] T.k = "enum" -> IF AllLeavesAct(tr, v) THEN {} ELSE {"leaf-actual"}
    [] T.k \in SeqKinds ->
         IF ~IsSeqV(v) THEN LeafBad(tr, v)
         ELSE LET slots == [i \in DOMAIN v.xs |-> [key |-> KeyInt(i - 1), T |-> T.e, v |-> v.xs[i]]] IN
              IF NoneRejected(slots)
              THEN (IF \A n \in DOMAIN slots : Verdict(slots[n].T, slots[n].v) = "A" THEN LeafBad(tr, v) ELSE {})
              ELSE ProdBad(tr, v, slots, {}, {}, {})
    [] T.k = "tuple" ->
         IF ~IsSeqV(v) \/ Len(v.xs) # Len(T.es) THEN LeafBad(tr, v)
         ELSE ProdBad(tr, v, [i \in DOMAIN v.xs |-> [key |-> KeyInt(i - 1), T |-> T.es[i], v |-> v.xs[i]]], {}, {}, {})
    [] T.k \in DictKinds ->
         IF ~IsMapV(v) THEN LeafBad(tr, v)
         ELSE IF ~AllStrKeys(v) THEN {}    \* keys are reported through str(): only string keys are judged
         ELSE LET vt == IF T.k = "counter" THEN [k |-> "int"] ELSE T.vt
                  n == Len(v.ps)
                  slots == [i \in 1..(2 * n) |->
                              IF i <= n THEN [key |-> v.ps[i][1], T |-> T.kt, v |-> v.ps[i][1]]
                              ELSE [key |-> v.ps[i - n][1], T |-> vt, v |-> v.ps[i - n][2]]] IN
              IF NoneRejected(slots)
              THEN (IF \A i \in DOMAIN slots : Verdict(slots[i].T, slots[i].v) = "A" THEN LeafBad(tr, v) ELSE {})
              ELSE ProdBad(tr, v, slots, {}, {}, {})
    [] T.k = "struct" ->
         IF ~IsMapV(v) THEN LeafBad(tr, v)
         ELSE IF ~AllStrKeys(v) THEN {}
         ELSE LET names == {T.fs[i][1] : i \in DOMAIN T.fs}
                  ftype(nm) == T.fs[CHOOSE j \in DOMAIN T.fs : T.fs[j][1] = nm][2]
                  kn == SelectSeq(v.ps, LAMBDA p : p[1].s \in names)
                  slots == [i \in DOMAIN kn |-> [key |-> kn[i][1], T |-> ftype(kn[i][1].s), v |-> kn[i][2]]]
                  present == {v.ps[i][1].s : i \in DOMAIN v.ps}
              IN ProdBad(tr, v, slots, names \ present, present \ names, {})
    [] T.k = "union" ->
         LET A == FlatAlts(T) IN
         IF Len(A) = 1 THEN TreeBad(A[1], v, tr)
         ELSE IF tr.k # "sum" THEN {"node-kind"}
         ELSE IF Len(tr.ch) # Len(A) THEN {"sum-arity"}
         ELSE UNION { IF Verdict(A[i], v) = "R" THEN TreeBad(A[i], v, tr.ch[i]) ELSE {} : i \in DOMAIN A }
    [] T.k = "ann" ->
         LET r == Verdict(T.t, v) IN
         IF r = "R" THEN TreeBad(T.t, v, tr)
         ELSE IF r = "D" THEN {}
         ELSE IF tr.k # "cf" THEN {"node-kind"} ELSE IF tr.act = v THEN {} ELSE {"leaf-actual"}
    [] T.k = "sub" -> IF Verdict(T.base, v) = "R" THEN TreeBad(T.base, v, tr) ELSE LeafBad(tr, v)
    [] T.k = "tvar" -> IF T.var = "bound" THEN TreeBad(T.ts[1], v, tr) ELSE {}
    [] T.k = "tagged" ->
         LET te == TagExtract(T, v) IN
         IF ~te.ok THEN (IF v.k = "map" /\ IsLeafT(tr) /\ tr.act = [v EXCEPT !.f = "dict"] THEN {}   \* an equal dict copy of a Mapping
                         ELSE LeafBad(tr, v))
         ELSE LET i == TagVariant(T, te.tag) IN
              IF i = 0 THEN (IF ~IsLeafT(tr) THEN {"node-kind"} ELSE IF tr.act = te.tag THEN {} ELSE {"leaf-actual"})
              ELSE IF i = -1 THEN {}
              ELSE TreeBad(T.vars[i], te.body, tr)     \* the body error is that variant's, and only that one's
    [] T.k = "cls" -> ClsTreeBad(T, v, tr)
    [] T.k = "ndarray" -> {}

(* trace clause for a `tree` event *)
TreeFails(e) ==
  IF Verdict(e.ty, e.val) # "R" THEN {}
  ELSE IF e.tree.k = "none" THEN {}      \* no ConvertError at all: C01 / C04 report that
  ELSE (LET tb == TreeBad(e.ty, e.val, e.tree)
            \* a structural child that must be rejected but for which the code, asked alone, reports nothing: the
            \* verdict on that child differs (reported by the from_data clauses for it); its absence among the
            \* children of this node follows from that and is not judged a second time
            acceptedchild == \E j \in DOMAIN e.alone : e.alone[j].tree.k = "none" /\ Verdict(e.alone[j].ty, e.alone[j].val) = "R"
        IN IF acceptedchild THEN tb \ {"children-keys"} ELSE tb)
       \cup (IF "fresh" \in DOMAIN e /\ e.fresh = "F" THEN {"tree-depends-on-history"} ELSE {})
       \cup (* each child equals the tree the element's own type reports for the sub-value alone *)
          (IF e.tree.k = "prod" /\ e.ty.k \notin {"union", "tagged", "ann", "sub", "tvar", "enum", "ndarray"}
           THEN LET mine == {e.tree.ch[i][2] : i \in {j \in DOMAIN e.tree.ch : e.tree.ch[j][2].k # "dup"}}
                    theirs == {e.alone[i].tree : i \in {j \in DOMAIN e.alone :
                                   e.alone[j].tree.k # "none" /\ Verdict(e.alone[j].ty, e.alone[j].val) = "R"}}
                    maybe == {e.alone[i].tree : i \in {j \in DOMAIN e.alone : e.alone[j].tree.k # "none"}}
                    \* (a mapping entry failing on both key and value is reported once: either tree may be the child)
                    \* (the value under a duplicated key is reported as a duplicate, it is not converted)
                    hasdup == \E i \in DOMAIN e.tree.ch : e.tree.ch[i][2].k = "dup"
                IN IF (e.ty.k \in DictKinds \/ hasdup \/ theirs \subseteq mine) /\ mine \subseteq maybe THEN {} ELSE {"child-not-standalone"}
           ELSE {})

-----------------------------------------------------------------------------
(* C08.  The harness reports, for every string occurring in the tree, the offsets at which   *)
(* it occurs in str(error) (<<-1>> = the empty string, trivially present).  Needs(rt) is the *)
(* ordered list of groups of fragments the text must contain, in nesting order: each path    *)
(* component, then what lies below it; for a leaf its expectation, the offending value, the  *)
(* message of the causing exception; missing / unexpected / duplicated field names.          *)
(* rt is the tree with strings replaced by fragment ids:                                     *)
(*   [k|->"leaf", exp, val, cause] [k|->"dup", key, aliases] [k|->"prod", ch, missing, extra] *)
(*   [k|->"sum", ch]                                                                         *)
MinOf(S) == CHOOSE x \in S : \A y \in S : x <= y
MaxOf(S) == CHOOSE x \in S : \A y \in S : x >= y

RECURSIVE Needs(_, _), NeedsSeq(_, _, _), NeedsCh(_, _)
NeedsSeq(ch, i, inSum) == IF i > Len(ch) THEN <<>> ELSE Needs(ch[i], inSum) \o NeedsSeq(ch, i + 1, inSum)
NeedsCh(ch, i) == IF i > Len(ch) THEN <<>> ELSE <<{ch[i][1]}>> \o Needs(ch[i][2], FALSE) \o NeedsCh(ch, i + 1)
Needs(rt, inSum) ==
  CASE rt.k = "leaf" -> <<{rt.exp}>> \o (IF inSum THEN <<>> ELSE <<{rt.val}>>) \o (IF rt.cause # "" THEN <<{rt.cause}>> ELSE <<>>)
    [] rt.k = "dup"  -> <<{rt.key}>> \o (IF rt.aliases = <<>> THEN <<>> ELSE <<Range(rt.aliases)>>)
    [] rt.k = "prod" -> NeedsCh(rt.ch, 1)
                        \o (IF rt.missing = <<>> THEN <<>> ELSE <<Range(rt.missing)>>)
                        \o (IF rt.extra = <<>> THEN <<>> ELSE <<Range(rt.extra)>>)
    [] rt.k = "sum"  -> LET leaves == {i \in DOMAIN rt.ch : rt.ch[i].k = "leaf"} IN
                        NeedsSeq(rt.ch, 1, TRUE)
                        \* (a union nested in a union - an enum with values of several kinds as a member - is listed
                        \*  among the alternatives of the enclosing one, which shows the value they were all offered)
                        \o (IF leaves = {} \/ inSum THEN <<>> ELSE <<{rt.ch[MaxOf(leaves)].val}>>)
    [] OTHER -> <<>>

RECURSIVE Sat(_, _, _, _)
Sat(needs, occ, i, pos) ==
  IF i > Len(needs) THEN TRUE
  ELSE LET offs(f) == (CHOOSE p \in Range(occ) : p[1] = f)[2]
           first(f) == IF offs(f) = <<-1>> THEN pos
                       ELSE LET S == {o \in Range(offs(f)) : o >= pos} IN IF S = {} THEN -1 ELSE MinOf(S)
       IN IF \E f \in needs[i] : first(f) = -1 THEN FALSE
          ELSE Sat(needs, occ, i + 1, MaxOf({first(f) : f \in needs[i]}))

RenderFails(e) ==
  IF e.tree.k = "none" THEN {}
  ELSE (IF e.raised = "T" THEN {"render-raised"} ELSE {})
       \cup (IF e.stable = "F" THEN {"render-unstable"} ELSE {})
       \cup (IF e.raised = "F" /\ ~Sat(Needs(e.rtree, FALSE), e.occ, 1, 0) THEN {"render-incomplete"} ELSE {})
=============================================================================
