----------------------------- MODULE PaneErrors -----------------------------
(* error-tree algebra and rendering obligations (C07, C08) - filled in below *)
EXTENDS PaneSem
TreeFails(e)   == {"not-implemented"}
RenderFails(e) == {"not-implemented"}
=============================================================================
