------------------------------- MODULE PaneLRU -------------------------------
(***************************************************************************)
(* C10, part B: the bounded (LRU) mode of the key cache, step by step.     *)
(* One call is: Call (key computed), Probe (under the lock: a hit moves    *)
(* the key to the most-recent end and returns), Compute (outside the lock),*)
(* Insert (under the lock: already present / evict the oldest / append),   *)
(* Return.  Threads interleave between the steps.  The whole state is one  *)
(* record so that the same step function drives the exhaustive model and   *)
(* the validation of states recorded from the real KeyCache object.        *)
(***************************************************************************)
EXTENDS Integers, Sequences, FiniteSets, TLC

CONSTANTS Keys, MaxSize, LThreads, LMaxLevel

VARIABLE st
F(k) == 2 * k                              \* the memoised function (pure)

Idle == [pc |-> "idle", k |-> 0, res |-> 0]
LInitState == [order |-> <<>>, full |-> (MaxSize = 0), calls |-> 0, th |-> [t \in LThreads |-> Idle]]

Has(s, k) == \E i \in DOMAIN s.order : s.order[i] = k
Without(seq, k) == SelectSeq(seq, LAMBDA x : x # k)

(* actions are records [a |-> name, t |-> thread, k |-> key] *)
LEnabled(s, a) ==
  CASE a.a = "Call"    -> s.th[a.t].pc = "idle"
    [] a.a = "Probe"   -> s.th[a.t].pc = "probe"
    [] a.a = "Compute" -> s.th[a.t].pc = "compute"
    [] a.a = "Insert"  -> s.th[a.t].pc = "insert"
    [] a.a = "Return"  -> s.th[a.t].pc = "done"

Step(s, a) ==
  LET me == s.th[a.t]
      set(r) == [s EXCEPT !.th[a.t] = r] IN
  CASE a.a = "Call"  -> set([pc |-> "probe", k |-> a.k, res |-> 0])
    [] a.a = "Probe" ->
         IF MaxSize = 0 THEN set([me EXCEPT !.pc = "compute"])                 \* a zero-sized cache does not cache
         ELSE IF Has(s, me.k)
              THEN [set([me EXCEPT !.pc = "done", !.res = F(me.k)]) EXCEPT !.order = Append(Without(s.order, me.k), me.k)]
              ELSE set([me EXCEPT !.pc = "compute"])
    [] a.a = "Compute" ->
         [set([me EXCEPT !.pc = IF MaxSize = 0 THEN "done" ELSE "insert", !.res = F(me.k)]) EXCEPT !.calls = s.calls + 1]
    [] a.a = "Insert" ->
         LET s2 == set([me EXCEPT !.pc = "done"]) IN
         IF Has(s, me.k) THEN s2                                               \* another thread stored it meanwhile
         ELSE IF s.full THEN [s2 EXCEPT !.order = Append(IF s.order = <<>> THEN <<>> ELSE Tail(s.order), me.k)] \* evict the least recently used
         ELSE [s2 EXCEPT !.order = Append(s.order, me.k), !.full = (Len(s.order) + 1 >= MaxSize)]
    [] a.a = "Return" -> set(Idle)

Actions == [a : {"Call"}, t : LThreads, k : Keys] \cup [a : {"Probe", "Compute", "Insert", "Return"}, t : LThreads, k : {0}]
LInit == st = LInitState
LNext == \E a \in Actions : LEnabled(st, a) /\ st' = Step(st, a)
LSpec == LInit /\ [][LNext]_st
LBounded == TLCGet("level") <= LMaxLevel

SizeBound   == Len(st.order) <= MaxSize
NoDuplicate == \A i, j \in DOMAIN st.order : i # j => st.order[i] # st.order[j]
FullFlag    == MaxSize > 0 => (st.full = (Len(st.order) >= MaxSize))
ResultIsF   == \A t \in LThreads : st.th[t].pc = "done" => st.th[t].res = F(st.th[t].k)
=============================================================================
