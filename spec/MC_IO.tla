-------------------------------- MODULE MC_IO --------------------------------
EXTENDS PaneIO
(* the option universes are printed once so that the harness enumerates exactly these *)
ASSUME PrintT(<<"JSONOPTS", JsonOpts>>) /\ PrintT(<<"YAMLOPTS", YamlOpts>>)
=============================================================================
