SPECIFICATION Spec
CONSTANTS
  StrFacts <- LoadedFacts
  MaxDepth = 2
  Focus = "core"
  OuterWrap = "all"
INVARIANT VerdictTotal
INVARIANT MembersNotRejected
INVARIANT ImgDefined
INVARIANT UnionLaw
CHECK_DEADLOCK FALSE
