---------------------------- MODULE PaneLRUTrace ----------------------------
(* Validation of states recorded from a real pane.util.KeyCache(f, key_f, maxsize) object    *)
(* driven through behaviours of PaneLRU: after every step the harness logs the abstract      *)
(* state of the real object (keys in recency order read off the linked list, the full flag,  *)
(* the number of calls of f, each thread's position and result).  TLC applies the model's    *)
(* step function to the previous state and compares; a mismatch is recorded and validation   *)
(* resumes from the logged state, so one disagreement does not hide the rest of the trace.   *)
EXTENDS PaneLRU, Json, IOUtils

Events == ndJsonDeserialize(IOEnv.PANE_TRACE)
VARIABLES l, bad
tvars == <<l, bad, st>>

Logged(e) == [order |-> e.order, full |-> (e.full = "T"), calls |-> e.calls,
              th |-> [t \in LThreads |-> [pc |-> e.th[t].pc, k |-> e.th[t].k, res |-> e.th[t].res]]]

TraceInit == l = 1 /\ bad = {} /\ st = LInitState
TraceNext ==
  /\ l <= Len(Events) /\ l' = l + 1
  /\ LET e == Events[l] IN
     IF e.op = "reset" THEN st' = LInitState /\ bad' = bad
     ELSE LET a == [a |-> e.a, t |-> e.t, k |-> e.k]
              want == IF LEnabled(st, a) THEN Step(st, a) ELSE st
              got == Logged(e) IN
          /\ st' = got
          /\ bad' = bad \cup (IF e.raised # "" THEN {<<e.id, "cache-raised-" \o e.raised>>} ELSE {})
                        \cup (IF ~LEnabled(st, a) THEN {<<e.id, "step-not-enabled">>}
                              ELSE IF got = want THEN {}
                              ELSE (IF got.order # want.order THEN {<<e.id, "recency-order">>} ELSE {})
                                   \cup (IF got.full # want.full THEN {<<e.id, "full-flag">>} ELSE {})
                                   \cup (IF got.calls # want.calls THEN {<<e.id, "function-calls">>} ELSE {})
                                   \cup (IF got.th # want.th THEN {<<e.id, "thread-result">>} ELSE {}))
TraceSpec == TraceInit /\ [][TraceNext]_tvars
Report == (l = Len(Events) + 1) => PrintT(<<"BAD", bad>>)
TraceAccepted == TLCGet("stats").diameter - 1 = Len(Events)
=============================================================================
