SPECIFICATION LSpec
CONSTANTS
  Keys = {1, 2, 3}
  MaxSize = 1
  LThreads = {1, 2}
  LMaxLevel = 22
CONSTRAINT LBounded
INVARIANT SizeBound
INVARIANT NoDuplicate
INVARIANT FullFlag
INVARIANT ResultIsF
CHECK_DEADLOCK FALSE
