SPECIFICATION Spec
CONSTANTS
  StrFacts <- LoadedFacts
  MaxDepth = 1
  Focus = "scalar"
  OuterWrap = "all"
INVARIANT VerdictTotal
INVARIANT MembersNotRejected
INVARIANT ImgDefined
INVARIANT UnionLaw
INVARIANT SerConsistent
INVARIANT RoundTripLaw
INVARIANT DispatchMatchesKinds
CHECK_DEADLOCK FALSE
