----------------------------- MODULE PaneVocab -----------------------------
(***************************************************************************)
(* Shared vocabulary of the pane specification: how interchange values,    *)
(* typed values and type expressions are written as TLA+ values, Python    *)
(* equality on them, and the "environment facts" about strings (what the   *)
(* standard library makes of a given text).                                *)
(*                                                                         *)
(* Encoding rules (TLC compares structurally and fails on string-vs-int):  *)
(*  - every object is a record whose field k (kind) is a string;           *)
(*  - a field name always carries the same TLA+ type.                      *)
(*                                                                         *)
(* Numbers.  A rational is <<n, d>> with d > 0 in lowest terms.  A "num"   *)
(* (float, Decimal) is [q |-> rational, sp |-> "fin"|"inf"|"ninf"|"nan"|   *)
(* "nzero"].  Integers are 32 bit (TLC); the drivers skip (and count)      *)
(* anything that does not fit.                                             *)
(*                                                                         *)
(* Atoms (interchange scalars):                                            *)
(*   [k |-> "none"]                                                        *)
(*   [k |-> "bool",    b |-> "T"|"F"]                                      *)
(*   [k |-> "int",     n |-> i]                                            *)
(*   [k |-> "float",   q |-> <<n,d>>, sp |-> ..]                           *)
(*   [k |-> "complex", re |-> num, im |-> num]                             *)
(*   [k |-> "str",     s |-> token]     token: key into StrFacts           *)
(*   [k |-> "bytes",   s |-> token, mut |-> "T"|"F"]   (mut = bytearray)   *)
(* Containers (interchange and typed):                                     *)
(*   [k |-> "seq", f |-> "list"|"tuple"|"deque"|"other", xs |-> <<..>>]    *)
(*   [k |-> "map", f |-> "dict"|"defaultdict"|"ordereddict"|"counter"|     *)
(*                       "proxy" | "ddlist", ps |-> << <<key, val>>, .. >>]  *)
(*        ("ddlist": a defaultdict whose factory is list - as INPUT data) *)
(*   [k |-> "set", f |-> "set"|"frozenset", es |-> {..}]      (typed only) *)
(* Typed-only scalars:                                                     *)
(*   [k |-> "frac", q], [k |-> "dec", q, sp], [k |-> "date"|"time"|        *)
(*   "datetime", s |-> iso token], [k |-> "path", s], [k |-> "pat", s,     *)
(*   b |-> "T"|"F"], [k |-> "enum", e |-> name, i |-> index],              *)
(*   [k |-> "sub", c |-> class name, x |-> value of the base type],        *)
(*   [k |-> "inst", c |-> class name, fs |-> << <<field, value>> .. >>,    *)
(*    set |-> {field names}]                                               *)
(*   [k |-> "vol", one |-> "T"|"F", x |-> value]   pane.types.ValueOrList  *)
(***************************************************************************)
EXTENDS Integers, Sequences, FiniteSets

CONSTANT StrFacts   \* record: token |-> facts about that text (see Fact below)

-----------------------------------------------------------------------------
(* Facts about a string/bytes token, computed by the harness by calling the *)
(* standard library directly (never through pane):                         *)
(*   dec  : num the text parses to as Decimal, sp = "no" if it does not    *)
(*   fr   : <<n,d>> as Fraction; <<0,0>> = ValueError; <<0,-1>> = ZeroDivisionError *)
(*   date, time, dt : token of the canonical isoformat, "" if fromisoformat raises *)
(*   path : token of str(PurePosixPath(text)) (normalised spelling)         *)
(*   re   : "ok" or the name of the exception class re.compile raises      *)
(*   len  : number of characters / bytes                                   *)
Fact(tok) == StrFacts[tok]

-----------------------------------------------------------------------------
(* small helpers                                                           *)
Range(s) == {s[i] : i \in DOMAIN s}
Fin(r)   == [q |-> r, sp |-> "fin"]
Zero     == <<0, 1>>
IntQ(n)  == <<n, 1>>

RLt(a, b)  == a[1] * b[2] <  b[1] * a[2]
RLeq(a, b) == a[1] * b[2] <= b[1] * a[2]
REq(a, b)  == a[1] * b[2] =  b[1] * a[2]

(* exact rational arithmetic (for the shipped Range helper: span / step, ceilings) *)
RECURSIVE GCD(_, _)
GCD(a, b)  == IF b = 0 THEN a ELSE GCD(b, a % b)
AbsI(n)    == IF n < 0 THEN -n ELSE n
RNorm(r)   == LET n == IF r[2] < 0 THEN -r[1] ELSE r[1]
                  d == AbsI(r[2])
                  g == GCD(AbsI(n), d) IN <<n \div g, d \div g>>
RSub(a, b) == RNorm(<<a[1] * b[2] - b[1] * a[2], a[2] * b[2]>>)
RDiv(a, b) == RNorm(<<a[1] * b[2], a[2] * b[1]>>)             \* b[1] # 0
RCeil(a)   == -((-a[1]) \div a[2])                            \* \div is floor division
RECURSIVE IsPow2(_)
IsPow2(n)  == n = 1 \/ (n > 1 /\ n % 2 = 0 /\ IsPow2(n \div 2))

MkNone       == [k |-> "none"]
MkBool(b)    == [k |-> "bool", b |-> b]
MkInt(n)     == [k |-> "int", n |-> n]
MkFloatN(nm) == [k |-> "float", q |-> nm.q, sp |-> nm.sp]
MkFloat(r)   == [k |-> "float", q |-> r, sp |-> "fin"]
MkComplex(re, im) == [k |-> "complex", re |-> re, im |-> im]
MkStr(s)     == [k |-> "str", s |-> s]
MkBytes(s)   == [k |-> "bytes", s |-> s, mut |-> "F"]
MkBArr(s)    == [k |-> "bytes", s |-> s, mut |-> "T"]
MkSeq(f, xs) == [k |-> "seq", f |-> f, xs |-> xs]
MkList(xs)   == MkSeq("list", xs)
MkTuple(xs)  == MkSeq("tuple", xs)
MkMap(f, ps) == [k |-> "map", f |-> f, ps |-> ps]
MkDict(ps)   == MkMap("dict", ps)
MkSet(f, es) == [k |-> "set", f |-> f, es |-> es]

(* "bigint": an int beyond 32 bits; the one the universe uses (10 ** 400) is also beyond every float *)
AtomKinds   == {"none", "bool", "int", "float", "complex", "str", "bytes", "bigint"}
IsAtom(v)   == v.k \in AtomKinds
IsSeqV(v)   == v.k = "seq"
IsMapV(v)   == v.k = "map"
(* interchange value: atoms, sequences (list/tuple/other Sequence), mappings, recursively *)
RECURSIVE IsData(_)
IsData(v) ==
  CASE v.k \in AtomKinds -> TRUE
    [] v.k = "seq" -> v.f \in {"list", "tuple", "other"} /\ \A i \in DOMAIN v.xs : IsData(v.xs[i])
    [] v.k = "map" -> \A i \in DOMAIN v.ps : IsData(v.ps[i][1]) /\ IsData(v.ps[i][2])
    [] v.k = "sub" -> v.x.k \in AtomKinds      \* an instance of a subclass of str / int / .. is a str / int / ..
    [] OTHER -> FALSE

-----------------------------------------------------------------------------
(* numeric view of a value, for Python's cross-type numeric equality and   *)
(* for conditions                                                          *)
NumNum(v) ==   \* the "num" of a real-valued numeric value
  CASE v.k = "bool"  -> Fin(IF v.b = "T" THEN <<1, 1>> ELSE Zero)
    [] v.k = "int"   -> Fin(IntQ(v.n))
    [] v.k = "float" -> [q |-> v.q, sp |-> v.sp]
    [] v.k = "frac"  -> Fin(v.q)
    [] v.k = "dec"   -> [q |-> v.q, sp |-> v.sp]
IsReal(v)    == v.k \in {"bool", "int", "float", "frac", "dec"}     \* (bigint: conditions are left open, see Holds)
IsNumeric(v) == IsReal(v) \/ v.k = "complex"

(* equality of two nums as Python compares floats: nan is unequal to everything, -0.0 == 0.0 *)
NumEq(a, b) ==
  IF a.sp = "nan" \/ b.sp = "nan" THEN FALSE
  ELSE IF a.sp \in {"inf", "ninf"} \/ b.sp \in {"inf", "ninf"} THEN a.sp = b.sp
  ELSE REq(a.q, b.q)
NumLt(a, b) ==    \* a < b on nums (FALSE when either is nan)
  IF a.sp = "nan" \/ b.sp = "nan" THEN FALSE
  ELSE IF a.sp = "ninf" THEN b.sp # "ninf"
  ELSE IF b.sp = "inf"  THEN a.sp # "inf"
  ELSE IF a.sp = "inf" \/ b.sp = "ninf" THEN FALSE
  ELSE RLt(a.q, b.q)
NumLeq(a, b) == NumLt(a, b) \/ NumEq(a, b)
NumFinite(a) == a.sp \in {"fin", "nzero"}

ReOf(v) == IF v.k = "complex" THEN v.re ELSE NumNum(v)
ImOf(v) == IF v.k = "complex" THEN v.im ELSE Fin(Zero)

(* Python's == on values that can be hashed (atoms, tuples of them); structural otherwise *)
RECURSIVE PyEq(_, _)
PyEq(a, b) ==
  IF IsNumeric(a) /\ IsNumeric(b) THEN NumEq(ReOf(a), ReOf(b)) /\ NumEq(ImOf(a), ImOf(b))
  ELSE IF a.k # b.k THEN FALSE
  ELSE CASE a.k = "str"   -> a.s = b.s
         [] a.k = "bytes" -> a.s = b.s
         [] a.k = "seq"   -> /\ (a.f = "tuple") = (b.f = "tuple")
                             /\ Len(a.xs) = Len(b.xs)
                             /\ \A i \in DOMAIN a.xs : PyEq(a.xs[i], b.xs[i])
         [] OTHER -> a = b

(* same kind AND equal: what a Literal / enum value has to match to be a certain accept *)
SameKindEq(a, b) == a.k = b.k /\ PyEq(a, b) /\ (a.k = "bytes" => a.mut = b.mut)

(* can the typed value be a set element / dict key *)
RECURSIVE Hashable(_)
Hashable(x) ==
  CASE x.k = "bytes" -> x.mut = "F"
    [] x.k = "seq"   -> x.f = "tuple" /\ \A i \in DOMAIN x.xs : Hashable(x.xs[i])
    [] x.k = "set"   -> x.f = "frozenset"
    [] x.k = "map"   -> FALSE
    [] x.k = "sub"   -> Hashable(x.x)
    [] x.k = "inst"  -> \A i \in DOMAIN x.fs : Hashable(x.fs[i][2])
    [] x.k = "ndarray" -> FALSE
    [] x.k = "vol"   -> FALSE          \* ValueOrList defines __eq__ only
    [] OTHER -> TRUE

(* Wire form -> TLA+ values.  In JSON (and inside type descriptors: default values) sets are   *)
(* written as sequences; Dec turns them into TLA+ sets so that equality is structural.         *)
RECURSIVE Dec(_)
Dec(x) ==
  CASE x.k = "seq"  -> [x EXCEPT !.xs = [i \in DOMAIN x.xs |-> Dec(x.xs[i])]]
    [] x.k = "map"  -> [x EXCEPT !.ps = [i \in DOMAIN x.ps |-> <<Dec(x.ps[i][1]), Dec(x.ps[i][2])>>]]
    [] x.k = "set"  -> [x EXCEPT !.es = {Dec(x.es[i]) : i \in DOMAIN x.es}]
    [] x.k = "sub"  -> [x EXCEPT !.x = Dec(x.x)]
    [] x.k = "vol"  -> [x EXCEPT !.x = Dec(x.x)]
    [] x.k = "inst" -> [x EXCEPT !.fs = [i \in DOMAIN x.fs |-> <<x.fs[i][1], Dec(x.fs[i][2])>>],
                                 !.set = Range(x.set)]
    [] OTHER -> x


(* three-valued verdicts and their Kleene conjunction *)
KAnd(a, b) == IF a = "R" \/ b = "R" THEN "R" ELSE IF a = "D" \/ b = "D" THEN "D" ELSE "A"
KSeq(vs)   == IF \E i \in DOMAIN vs : vs[i] = "R" THEN "R"
              ELSE IF \E i \in DOMAIN vs : vs[i] = "D" THEN "D" ELSE "A"

(* do two of the values collide under Python equality without being identical:        *)
(* then which one a set / dict keeps is an implementation detail (don't-care)         *)
Collides(xs) == \E i, j \in DOMAIN xs : i < j /\ PyEq(xs[i], xs[j])
=============================================================================
