SPECIFICATION RSpec
CONSTANTS
  Alphabet = {1, 2}
  WordLens = {2, 3}
  MaxWords = 3
INVARIANT ImplCanonical
INVARIANT ImplIdempotent
INVARIANT ImplBackToSnake
INVARIANT ImplNeverRefusesValid
INVARIANT SpecSplitsBack
INVARIANT SpecInjective
CHECK_DEADLOCK FALSE
