SPECIFICATION Spec
CONSTANTS
  StrFacts <- LoadedFacts
  MaxDepth = 2
  Focus = "core"
  OuterWrap = "few"
INVARIANT VerdictTotal
INVARIANT MembersNotRejected
INVARIANT ImgDefined
INVARIANT UnionLaw
INVARIANT SerConsistent
INVARIANT RoundTripLaw
INVARIANT DispatchMatchesKinds
CHECK_DEADLOCK FALSE
