SPECIFICATION Spec
CONSTANTS
  StrFacts <- LoadedFacts
  MaxDepth = 2
  Focus = "core"
  OuterWrap = "few"
INVARIANT VerdictTotal
INVARIANT MembersNotRejected
INVARIANT ImgDefined
INVARIANT UnionLaw
INVARIANT SerConsistent
INVARIANT RoundTripLaw
CHECK_DEADLOCK FALSE
