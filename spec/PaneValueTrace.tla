--------------------------- MODULE PaneValueTrace ---------------------------
(* Trace validation for C16: observations recorded from real generated classes / instances   *)
(* (==, !=, <, <=, >, >=, hash, attribute assignment and deletion, copy, deepcopy,           *)
(* __replace__, repr, class creation) against the expectations of PaneValue.                 *)
EXTENDS PaneValue, Json, IOUtils

Events == ndJsonDeserialize(IOEnv.PANE_TRACE)
VARIABLES l, bad
tvars == <<l, bad>>

Tf(b) == IF b THEN "T" ELSE "F"
Range(s) == {s[i] : i \in DOMAIN s}

DefFails(e) ==
  LET act == HashAction(e.cls) IN
  IF act = "raise" THEN (IF e.out = "TypeError" THEN {} ELSE {"explicit-hash-with-unsafe-hash-not-refused"})
  ELSE IF e.out = "ok" THEN {} ELSE {"class-creation-failed"}

CmpFails(e) ==
  LET c == e.cls  ident == e.ident = "T"
      eq == EqExp(c, e.a, e.b, e.rel, ident)
      o == IF ident /\ c.order = "T" /\ e.rel = "same" THEN 0 ELSE OrdExp(c, e.a, e.b, e.rel)
      act == HashAction(c) IN
  (IF e.eq = Tf(eq) THEN {} ELSE {"equality"})
  \cup (IF e.ne = Tf(~eq) THEN {} ELSE {"inequality"})
  \cup (IF e.lt = Rel(o, "lt") /\ e.le = Rel(o, "le") /\ e.gt = Rel(o, "gt") /\ e.ge = Rel(o, "ge") THEN {} ELSE {"ordering"})
  \cup (* consistency of order with equality, judged on what was observed *)
       (IF e.rel = "same" /\ c.order = "T" /\ ~ident
           /\ Cardinality({w \in {"lt", "eq", "gt"} : (w = "lt" /\ e.lt = "T") \/ (w = "eq" /\ e.eq = "T") \/ (w = "gt" /\ e.gt = "T")}) # 1
        THEN {"trichotomy"} ELSE {})
  \cup (CASE act = "none" -> IF e.ha = "unhashable" /\ e.hb = "unhashable" THEN {} ELSE {"hash-rule-table"}
          [] act \in {"gen", "explicit", "inherit"} ->
               (IF e.ha = "ok" /\ e.hb = "ok" THEN {} ELSE {"hash-rule-table"})
               \cup (IF e.ha = "ok" /\ e.hb = "ok" /\ e.eq = "T" /\ e.heq = "F" THEN {"equal-instances-hash-differently"} ELSE {})
               \cup (IF act = "gen" /\ e.ha = "ok" /\ e.hb = "ok" /\ e.heq = "F" /\ HashTuple(c, e.a) = HashTuple(c, e.b) /\ e.rel # "other"
                     THEN {"hash-not-of-hash-fields"} ELSE {})
          [] OTHER -> {})

(* equality across the inheritance relations: two different subclasses of one (parameterized) class, a     *)
(* subclass and its base are different classes; a generic subclass with other / no parameters is the same *)
InhFails(e) ==
  LET rel == IF e.rel = "subclass-params" THEN "generic" ELSE "other"
      eq == EqExp(e.cls, e.a, e.b, rel, FALSE) IN
  (IF e.eq = Tf(eq) /\ e.qe = Tf(eq) THEN {} ELSE {"equality"})
  \cup (IF e.ne = Tf(~eq) THEN {} ELSE {"inequality"})
(* a subclass with one more field, with / without eq=False: e.so, e.za, e.zb beside the base's field values *)
SubFails(e) ==
  LET c == e.cls
      eq == SubEqExp(c, e.so, e.a, e.b, e.za, e.zb)
      k == SubHashKind(c, e.so) IN
  (IF e.eq = Tf(eq) /\ e.qe = Tf(eq) THEN {} ELSE {"equality"})
  \cup (IF e.ne = Tf(~eq) THEN {} ELSE {"inequality"})
  \cup (IF k = "none" THEN (IF e.ha = "unhashable" /\ e.hb = "unhashable" THEN {} ELSE {"hash-rule-table"})
        ELSE (IF e.ha = "ok" /\ e.hb = "ok" THEN {} ELSE {"hash-rule-table"}))
  \cup (IF SubLawApplies(c, e.so) /\ e.eq = "T" /\ e.heq = "F" THEN {"equal-instances-hash-differently"} ELSE {})
  \cup (IF k \in {"own", "base", "const"} /\ e.heq = "F" /\ SubHashEqExp(c, e.so, e.a, e.b, e.za, e.zb)
        THEN {"hash-not-of-hash-fields"} ELSE {})
DefSubFails(e) == IF e.out = "ok" THEN {} ELSE {"class-creation-failed"}

MutateFails(e) ==
  IF e.what = "del" THEN (IF e.out = "AttributeError" THEN {} ELSE {"deletion-not-refused"})
  ELSE IF e.cls.frozen = "T" THEN (IF e.out = "FrozenInstanceError" THEN {} ELSE {"frozen-assignment-not-refused"})
  ELSE IF e.out # "ok" THEN {"assignment-refused"}
  ELSE (IF Range(e.set_after) = Range(e.set_before) \cup {e.field} THEN {} ELSE {"set-record-after-assignment"})
       \cup (IF e.stored = "T" THEN {} ELSE {"assignment-not-stored"})
       \* the instance was hashed before the assignment; afterwards it equals a fresh instance with the same fields
       \cup (IF "eq_after" \in DOMAIN e /\ e.eq_after = "T" /\ e.heq_after = "F" THEN {"equal-instances-hash-differently"} ELSE {})
       \cup (IF "eq_after" \in DOMAIN e /\ e.cls.eq = "T" /\ e.eq_after # "T" THEN {"equality"} ELSE {})
CopyFails(e) ==
  IF e.how \in {"copy", "deepcopy"}
  THEN (IF e.out.k # "ok" THEN {"copy-failed"}
        ELSE (IF e.out.vals = e.vals THEN {} ELSE {"copy-differs"})
             \cup (IF Range(e.out.set) = Range(e.set_before) THEN {} ELSE {"copy-set-record"})
             \cup (IF e.isnew = "T" THEN {} ELSE {"copy-not-new-object"})
             \cup (IF e.cls.eq = "T" /\ e.eqorig = "F" THEN {"copy-not-equal"} ELSE {})
             \cup (IF e.hook = 1 THEN {} ELSE {"post-init-run-count"})
             \* (unfrozen classes) a field was assigned on the copy afterwards: the original's record of set fields is unchanged
             \cup (IF "indep" \in DOMAIN e /\ e.indep = "F" THEN {"copy-shares-set-record"} ELSE {}))
  ELSE \* replace: constructor semantics over the set fields updated with the changes
       LET chIdx == {e.ch[i][1] : i \in DOMAIN e.ch}
           wrong == \E i \in DOMAIN e.ch : e.ch[i][2] = -1        \* -1 encodes a value of the wrong kind
           want == [j \in DOMAIN e.vals |-> IF j \in chIdx THEN e.ch[CHOOSE i \in DOMAIN e.ch : e.ch[i][1] = j][2] ELSE e.vals[j]]
           wantset == Range(e.set_before) \cup {e.names[j] : j \in chIdx} IN
       IF wrong THEN (IF e.out.k = "reject" THEN {} ELSE {"replace-does-not-revalidate"})
       ELSE IF e.out.k # "ok" THEN {"replace-failed"}
       ELSE (IF e.out.vals = want THEN {} ELSE {"replace-differs"})
            \cup (IF Range(e.out.set) = wantset THEN {} ELSE {"replace-set-record"})

ReprFails(e) ==
  LET want == SelectSeq([i \in DOMAIN e.cls.fl |-> i], LAMBDA i : e.cls.fl[i].repr = "T") IN
  IF e.shown = [i \in DOMAIN want |-> e.names[want[i]]] /\ e.named = "T" THEN {} ELSE {"repr-fields"}

Fails(e) == CASE e.op = "defvcls" -> DefFails(e)
              [] e.op = "cmp" -> CmpFails(e)
              [] e.op = "mutate" -> MutateFails(e)
              [] e.op = "copyop" -> CopyFails(e)
              [] e.op = "repr" -> ReprFails(e)
              [] e.op = "cmpinh" -> InhFails(e)
              [] e.op = "cmpsub" -> SubFails(e)
              [] e.op = "defsub" -> DefSubFails(e)
              [] OTHER -> {"unknown-event"}

TraceInit == l = 1 /\ bad = {} /\ cls = <<>> /\ xa = <<>> /\ xb = <<>> /\ xc = <<>> /\ ph = "trace"
TraceNext == /\ l <= Len(Events) /\ l' = l + 1
             /\ bad' = bad \cup {<<Events[l].id, c>> : c \in Fails(Events[l])}
             /\ UNCHANGED vvars
TraceSpec == TraceInit /\ [][TraceNext]_<<tvars, vvars>>
Report == (l = Len(Events) + 1) => PrintT(<<"BAD", bad>>)
TraceAccepted == TLCGet("stats").diameter - 1 = Len(Events)
=============================================================================
