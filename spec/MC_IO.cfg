SPECIFICATION IOSpec
CONSTANTS
  ValIds = {1, 2}
  MaxOps = 4
INVARIANT LibHandlesClosed
INVARIANT CallerStreamsOpen
INVARIANT ReadAllOnePerDocument
CHECK_DEADLOCK FALSE
