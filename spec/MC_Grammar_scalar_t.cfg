SPECIFICATION Spec
CONSTANTS
  StrFacts <- LoadedFacts
  MaxDepth = 2
  Focus = "scalar"
  OuterWrap = "few"
INVARIANT VerdictTotal
INVARIANT MembersNotRejected
INVARIANT ImgDefined
INVARIANT UnionLaw
CHECK_DEADLOCK FALSE
