SPECIFICATION Spec
CONSTANTS
  StrFacts <- LoadedFacts
  MaxDepth = 0
  Focus = "unionq"
  OuterWrap = "few"
INVARIANT RoundTripLawStrict
CHECK_DEADLOCK FALSE
