SPECIFICATION Spec
CONSTANTS
  StrFacts <- LoadedFacts
  MaxLevel = 2
  Rich = FALSE
INVARIANT KwBehind
INVARIANT NamesUnique
INVARIANT SelfSubscription
INVARIANT InheritedKept
INVARIANT ParamsOnce
CHECK_DEADLOCK FALSE
