------------------------------ MODULE PaneCache ------------------------------
(***************************************************************************)
(* C10: memoisation is transparent.                                        *)
(*                                                                         *)
(* Part A - the converter cache of make_converter.  The key is             *)
(* (id(type), handlers): an ADDRESS, not the type.  CPython reuses the     *)
(* address of a collected object, so the model has a heap: which type      *)
(* descriptor lives at which address, which addresses the client still     *)
(* references (live), which ones the cache keeps alive (pins).  A lookup   *)
(* is four steps per thread (Call, Probe, Build, Store): the unbounded     *)
(* mode of KeyCache takes no lock, so threads interleave between them.     *)
(* PinKeyArgs = FALSE is the code as found (nothing keeps a key's type     *)
(* alive); TRUE is the repaired design (the cache entry holds the          *)
(* arguments the key was computed from).                                   *)
(*                                                                         *)
(* Transparent: a completed lookup returns the converter a fresh build for *)
(* the type passed in (and the handlers) would return.                     *)
(***************************************************************************)
EXTENDS Integers, Sequences, FiniteSets, TLC

CONSTANTS Addr, Desc, HS, Threads, PinKeyArgs, MaxLevel

VARIABLES heap, live, pins, cache, pc, req, built, ret
cvars == <<heap, live, pins, cache, pc, req, built, ret>>

Free == "free"
NoConv == <<"none", "none">>
Fresh(d, h) == <<d, h>>                      \* what a fresh build for type d with handlers h behaves as
NoReq == [a |-> 0, h |-> "none", want |-> "none"]

CInit == /\ heap = [a \in Addr |-> Free] /\ live = {} /\ pins = {}
         /\ cache = [k \in Addr \X HS |-> NoConv]
         /\ pc = [t \in Threads |-> "idle"] /\ req = [t \in Threads |-> NoReq]
         /\ built = [t \in Threads |-> NoConv] /\ ret = [t \in Threads |-> NoConv]

Alloc(a, d) == /\ heap[a] = Free
               /\ heap' = [heap EXCEPT ![a] = d] /\ live' = live \cup {a}
               /\ UNCHANGED <<pins, cache, pc, req, built, ret>>
(* the caller of make_converter(ty) holds ty for the duration of the call *)
InUse(a) == \E t \in Threads : pc[t] # "idle" /\ req[t].a = a
Drop(a) == /\ a \in live /\ ~InUse(a)
           /\ live' = live \ {a}
           /\ heap' = IF a \in pins THEN heap ELSE [heap EXCEPT ![a] = Free]     \* refcount reaches zero: freed at once
           /\ UNCHANGED <<pins, cache, pc, req, built, ret>>

Call(t, a, h) == /\ pc[t] = "idle" /\ a \in live
                 /\ req' = [req EXCEPT ![t] = [a |-> a, h |-> h, want |-> heap[a]]]
                 /\ pc' = [pc EXCEPT ![t] = "key"]
                 /\ UNCHANGED <<heap, live, pins, cache, built, ret>>
Probe(t) == /\ pc[t] = "key"
            /\ LET k == <<req[t].a, req[t].h>> IN
               IF cache[k] # NoConv
               THEN ret' = [ret EXCEPT ![t] = cache[k]] /\ pc' = [pc EXCEPT ![t] = "done"]
               ELSE ret' = ret /\ pc' = [pc EXCEPT ![t] = "miss"]
            /\ UNCHANGED <<heap, live, pins, cache, req, built>>
Build(t) == /\ pc[t] = "miss"
            /\ built' = [built EXCEPT ![t] = Fresh(heap[req[t].a], req[t].h)]
            /\ pc' = [pc EXCEPT ![t] = "built"]
            /\ UNCHANGED <<heap, live, pins, cache, req, ret>>
Store(t) == /\ pc[t] = "built"
            /\ cache' = [cache EXCEPT ![<<req[t].a, req[t].h>>] = built[t]]
            /\ pins' = IF PinKeyArgs THEN pins \cup {req[t].a} ELSE pins
            /\ ret' = [ret EXCEPT ![t] = built[t]]
            /\ pc' = [pc EXCEPT ![t] = "done"]
            /\ UNCHANGED <<heap, live, req, built>>
Return(t) == /\ pc[t] = "done"
             /\ pc' = [pc EXCEPT ![t] = "idle"] /\ req' = [req EXCEPT ![t] = NoReq]
             /\ UNCHANGED <<heap, live, pins, cache, built, ret>>

CNext == \/ \E a \in Addr, d \in Desc : Alloc(a, d)
         \/ \E a \in Addr : Drop(a)
         \/ \E t \in Threads, a \in Addr, h \in HS : Call(t, a, h)
         \/ \E t \in Threads : Probe(t) \/ Build(t) \/ Store(t) \/ Return(t)
CSpec == CInit /\ [][CNext]_cvars
Bounded == TLCGet("level") <= MaxLevel

Transparent == \A t \in Threads : pc[t] = "done" => ret[t] = Fresh(req[t].want, req[t].h)
(* what the repaired design maintains: a cached entry describes the object that lives at its address *)
CacheSound == \A a \in Addr, h \in HS : cache[<<a, h>>] # NoConv => cache[<<a, h>>] = Fresh(heap[a], h)
PinsLive == \A a \in pins : heap[a] # Free
=============================================================================
