------------------------------ MODULE PaneCache ------------------------------
(***************************************************************************)
(* C10: memoisation is transparent.                                        *)
(*                                                                         *)
(* Part A - the converter cache of make_converter.  The key is             *)
(* (id(type), handlers): an ADDRESS, not the type.  CPython reuses the     *)
(* address of a collected object, so the model has a heap: which type      *)
(* descriptor lives at which address, which addresses the client still     *)
(* references (live), which ones the cache keeps alive (pins).  A lookup   *)
(* is four steps per thread (Call, Probe, Build, Store): the unbounded     *)
(* mode of KeyCache takes no lock, so threads interleave between them.     *)
(* PinKeyArgs = FALSE is the code as found (nothing keeps a key's type     *)
(* alive); TRUE is the repaired design (the cache entry holds the          *)
(* arguments the key was computed from).                                   *)
(*                                                                         *)
(* The registry of global handlers (register_converter_handler) is state   *)
(* too: reg counts the registrations; what a fresh build behaves as        *)
(* depends on the registry it reads.  RegDesign says what the cache does   *)
(* about it: "found" nothing (a converter memoised before a registration   *)
(* keeps being returned), "clear" empties the cache at every registration  *)
(* (refuted by TLC: a build in flight stores a converter made from the old *)
(* registry afterwards), "keyed" makes the number of registered handlers   *)
(* part of the key (the repair that was made).                             *)
(*                                                                         *)
(* Transparent: a completed lookup returns the converter a fresh build for *)
(* the type passed in, the handlers and a registry that was current at     *)
(* some moment of the call would return.                                   *)
(***************************************************************************)
EXTENDS Integers, Sequences, FiniteSets, TLC

CONSTANTS Addr, Desc, HS, Threads, PinKeyArgs, MaxLevel, MaxReg, RegDesign

VARIABLES heap, live, pins, cache, pc, req, built, ret, reg
cvars == <<heap, live, pins, cache, pc, req, built, ret, reg>>

Free == "free"
NoConv == <<"none", "none", 0>>
Fresh(d, h, r) == <<d, h, r>>                \* what a fresh build for type d, handlers h, registry r behaves as
NoReq == [a |-> 0, h |-> "none", want |-> "none", r0 |-> 0, kr |-> 0]
Keys == Addr \X HS \X (0..MaxReg)
KeyOf(a, h, r) == <<a, h, IF RegDesign = "keyed" THEN r ELSE 0>>

CInit == /\ heap = [a \in Addr |-> Free] /\ live = {} /\ pins = {}
         /\ cache = [k \in Keys |-> NoConv]
         /\ pc = [t \in Threads |-> "idle"] /\ req = [t \in Threads |-> NoReq]
         /\ built = [t \in Threads |-> NoConv] /\ ret = [t \in Threads |-> NoConv]
         /\ reg = 0

Alloc(a, d) == /\ heap[a] = Free
               /\ heap' = [heap EXCEPT ![a] = d] /\ live' = live \cup {a}
               /\ UNCHANGED <<pins, cache, pc, req, built, ret, reg>>
(* the caller of make_converter(ty) holds ty for the duration of the call *)
InUse(a) == \E t \in Threads : pc[t] # "idle" /\ req[t].a = a
Drop(a) == /\ a \in live /\ ~InUse(a)
           /\ live' = live \ {a}
           /\ heap' = IF a \in pins THEN heap ELSE [heap EXCEPT ![a] = Free]     \* refcount reaches zero: freed at once
           /\ UNCHANGED <<pins, cache, pc, req, built, ret, reg>>

(* Call computes the key: in the "keyed" design the registry size read now is part of it *)
Call(t, a, h) == /\ pc[t] = "idle" /\ a \in live
                 /\ req' = [req EXCEPT ![t] = [a |-> a, h |-> h, want |-> heap[a], r0 |-> reg, kr |-> reg]]
                 /\ pc' = [pc EXCEPT ![t] = "key"]
                 /\ UNCHANGED <<heap, live, pins, cache, built, ret, reg>>
Probe(t) == /\ pc[t] = "key"
            /\ LET k == KeyOf(req[t].a, req[t].h, req[t].kr) IN
               IF cache[k] # NoConv
               THEN ret' = [ret EXCEPT ![t] = cache[k]] /\ pc' = [pc EXCEPT ![t] = "done"]
               ELSE ret' = ret /\ pc' = [pc EXCEPT ![t] = "miss"]
            /\ UNCHANGED <<heap, live, pins, cache, req, built, reg>>
(* the build reads the registry as it is when the build runs *)
Build(t) == /\ pc[t] = "miss"
            /\ built' = [built EXCEPT ![t] = Fresh(heap[req[t].a], req[t].h, reg)]
            /\ pc' = [pc EXCEPT ![t] = "built"]
            /\ UNCHANGED <<heap, live, pins, cache, req, ret, reg>>
Store(t) == /\ pc[t] = "built"
            /\ cache' = [cache EXCEPT ![KeyOf(req[t].a, req[t].h, req[t].kr)] = built[t]]
            /\ pins' = IF PinKeyArgs THEN pins \cup {req[t].a} ELSE pins
            /\ ret' = [ret EXCEPT ![t] = built[t]]
            /\ pc' = [pc EXCEPT ![t] = "done"]
            /\ UNCHANGED <<heap, live, req, built, reg>>
Return(t) == /\ pc[t] = "done"
             /\ pc' = [pc EXCEPT ![t] = "idle"] /\ req' = [req EXCEPT ![t] = NoReq]
             /\ UNCHANGED <<heap, live, pins, cache, built, ret, reg>>

(* register_converter_handler: one more global handler *)
Register == /\ reg < MaxReg
            /\ reg' = reg + 1
            /\ IF RegDesign = "clear"
               THEN /\ cache' = [k \in Keys |-> NoConv]
                    /\ pins' = {}
                    /\ heap' = [a \in Addr |-> IF a \in pins /\ a \notin live THEN Free ELSE heap[a]]
               ELSE UNCHANGED <<cache, pins, heap>>
            /\ UNCHANGED <<live, pc, req, built, ret>>

CNext == \/ \E a \in Addr, d \in Desc : Alloc(a, d)
         \/ \E a \in Addr : Drop(a)
         \/ \E t \in Threads, a \in Addr, h \in HS : Call(t, a, h)
         \/ \E t \in Threads : Probe(t) \/ Build(t) \/ Store(t) \/ Return(t)
         \/ Register
CSpec == CInit /\ [][CNext]_cvars
Bounded == TLCGet("level") <= MaxLevel

Transparent == \A t \in Threads : pc[t] = "done" =>
                  \E r \in req[t].r0 .. reg : ret[t] = Fresh(req[t].want, req[t].h, r)
(* what the repaired design maintains: a cached entry describes the object that lives at its address, built *)
(* from a registry no older than the one its key names                                                     *)
CacheSound == \A k \in Keys : cache[k] # NoConv =>
                 /\ cache[k][1] = heap[k[1]] /\ cache[k][2] = k[2]
                 /\ (RegDesign = "keyed" => cache[k][3] >= k[3])
PinsLive == \A a \in pins : heap[a] # Free
=============================================================================
