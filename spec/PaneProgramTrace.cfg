SPECIFICATION TraceSpec
CONSTANTS
  StrFacts <- LoadedFacts
INVARIANT Report
POSTCONDITION TraceAccepted
CHECK_DEADLOCK FALSE
