SPECIFICATION LSpec
CONSTANTS
  Keys = {1, 2, 3}
  MaxSize = 1
  LThreads = {1, 2}
  LMaxLevel = 100
CONSTRAINT LBounded




CHECK_DEADLOCK FALSE
