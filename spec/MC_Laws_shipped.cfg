SPECIFICATION Spec
CONSTANTS
  StrFacts <- LoadedFacts
  MaxDepth = 1
  Focus = "shipped"
  OuterWrap = "few"
INVARIANT VerdictTotal
INVARIANT ImgDefined
INVARIANT UnionLaw
INVARIANT SerConsistent
INVARIANT RoundTripLaw
INVARIANT DispatchMatchesKinds
INVARIANT MembersNotRejected
CHECK_DEADLOCK FALSE
