SPECIFICATION Spec
CONSTANTS
  StrFacts <- LoadedFacts
  MaxDepth = 0
  Focus = "cls"
  OuterWrap = "few"
INVARIANT VerdictTotal
INVARIANT ImgDefined
INVARIANT UnionLaw
INVARIANT SerConsistent
INVARIANT RoundTripLaw
INVARIANT DispatchMatchesKinds
CHECK_DEADLOCK FALSE
