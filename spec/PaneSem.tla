------------------------------ MODULE PaneSem ------------------------------
(***************************************************************************)
(* What pane is REQUIRED to do: the semantics of from_data / into_data /   *)
(* convert over type expressions and values, written from the README,      *)
(* docs/using/*.md and the property statements C01..C20 - not from the     *)
(* code.  Three-valued: Verdict(T, v) is                                   *)
(*     "A"  from_data(v, T) must succeed, with image Img(T, v)             *)
(*     "R"  it must raise ConvertError                                     *)
(*     "D"  the documentation does not say (don't-care): either outcome    *)
(* Don't-cares propagate through containers by Kleene logic, so a          *)
(* composite is constrained only by what its parts constrain.              *)
(*                                                                         *)
(* Type expressions (field k = kind):                                      *)
(*  scalars  none bool int float complex str bytes bytearray decimal       *)
(*           fraction date time datetime path pattern patternb any         *)
(*  [k|->"list"|"tuplevar"|"set"|"frozenset"|"deque", e |-> T]             *)
(*  [k|->"tuple", es |-> <<T..>>]         (Tuple[A,B], tuple[A,B], (A,B))  *)
(*  [k|->"dict"|"defaultdict"|"ordereddict", kt |-> T, vt |-> T]           *)
(*  [k|->"counter", kt |-> T]                                              *)
(*  [k|->"struct", fs |-> << <<name token, T>> .. >>]     ({'x': T, ..})   *)
(*  [k|->"union", alts |-> <<T..>>]       (Optional[X] = Union[X, None])   *)
(*  [k|->"lit", vs |-> <<atom..>>]                                         *)
(*  [k|->"enum", name |-> s, vs |-> <<atom..>>]  member i has value vs[i]  *)
(*  [k|->"ann", t |-> T, cs |-> <<cond..>>]      Annotated[T, c1..cn]      *)
(*  [k|->"sub", name |-> s, base |-> T]          class S(base)             *)
(*  [k|->"tvar", var |-> "bound"|"constr"|"free", ts |-> <<T..>>]          *)
(*  [k|->"ndarray", e |-> T]              numpy.ndarray[Any, dtype[..]] of element type T      *)
(*       typed value: [k |-> "ndarray", shape |-> <<n..>>, xs |-> <<flat elements>>]        *)
(*  [k|->"tagged", vars |-> <<cls..>>, tag |-> field name, tags |->        *)
(*        <<atom..>>, lay |-> "int"|"ext"|"adj", tk |-> s, ck |-> s]       *)
(*  [k|->"cls", name |-> s, fs |-> <<field..>>, inf |-> <<"struct","tuple">>,*)
(*        outf |-> "struct"|"tuple", extra |-> "T"|"F", hook |-> hookspec] *)
(*     field = [n |-> name, t |-> T, d |-> default, kw |-> "T"|"F",        *)
(*              ins |-> <<input names>>, out |-> output name,              *)
(*              ex |-> "T"|"F" (excluded from output),                     *)
(*              init |-> "T"|"F" (F: never bound from data or arguments;   *)
(*                        keeps its default)]                              *)
(*     default = [k|->"nodef"] | [k|->"val", v |-> x] | [k|->"fac", v |-> x]*)
(*     hookspec = [k|->"nohook"] | [k|->"rejectif", f |-> field, c |-> cond]*)
(*         (a __post_init__ that raises when cond holds on the field)      *)
(*                | [k|->"rejectifset", f |-> field]  (a __post_init__ that    *)
(*         raises when the field is in the record of explicitly set fields,  *)
(*         self.__pane_set__, as the hook sees it)                           *)
(*                | [k|->"rangehook"]  the __post_init__ of the shipped       *)
(*         pane.types.Range: fields start, end, n, step; exactly one of n /  *)
(*         step is given and the other one is derived (RangeHook below)      *)
(*  [k|->"vol", e |-> T]     pane.types.ValueOrList[T]: a T or a list of T;  *)
(*         typed value [k |-> "vol", one |-> "T"|"F", x |-> the T / the list]*)
(***************************************************************************)
EXTENDS PaneVocab

ScalarKinds == {"none", "bool", "int", "float", "complex", "str", "bytes", "bytearray",
                "decimal", "fraction", "date", "time", "datetime", "path", "pattern",
                "patternb", "any"}
SeqKinds  == {"list", "tuplevar", "set", "frozenset", "deque"}
DictKinds == {"dict", "defaultdict", "ordereddict", "counter"}

-----------------------------------------------------------------------------
(* The scalar kind matrix (DESIGN appendix A).                             *)
ScalarVerdict(tk, v) ==
  CASE tk = "any"   -> "A"
    [] v.k = "bigint" ->     \* an int: accepted as int; too large for float / complex: must be refused, not overflow
         IF tk = "int" THEN "A" ELSE IF tk \in {"float", "complex"} THEN "R"
         ELSE IF tk \in {"decimal", "fraction"} THEN "D" ELSE "R"
    [] tk = "none"  -> IF v.k = "none" THEN "A" ELSE "R"
    [] tk = "bool"  -> IF v.k = "bool" THEN "A"
                       ELSE IF v.k = "int" /\ v.n \in {0, 1} THEN "D" ELSE "R"
    [] tk = "int"   -> IF v.k = "int" THEN "A" ELSE IF v.k = "bool" THEN "D" ELSE "R"
    [] tk = "float" -> IF v.k \in {"int", "float"} THEN "A" ELSE IF v.k = "bool" THEN "D" ELSE "R"
    [] tk = "complex" -> IF v.k \in {"int", "float", "complex"} THEN "A"
                         ELSE IF v.k = "bool" THEN "D" ELSE "R"
    [] tk = "str"   -> IF v.k = "str" THEN "A" ELSE "R"
    [] tk \in {"bytes", "bytearray"} -> IF v.k = "bytes" THEN "A" ELSE "R"
    [] tk = "decimal" ->
         IF v.k \in {"int", "float"} THEN "A"
         ELSE IF v.k = "bool" THEN "D"
         ELSE IF v.k = "str" THEN (IF Fact(v.s).dec.sp # "no" THEN "A" ELSE "R")
         ELSE "R"
    [] tk = "fraction" ->
         IF v.k = "int" THEN "A"
         ELSE IF v.k = "float" THEN (IF NumFinite([q |-> v.q, sp |-> v.sp]) THEN "A" ELSE "R")
         ELSE IF v.k = "bool" THEN "D"
         ELSE IF v.k = "str" THEN (IF Fact(v.s).fr[2] > 0 THEN "A" ELSE "R")
         ELSE "R"
    [] tk = "date"     -> IF v.k = "str" /\ Fact(v.s).date # "" THEN "A" ELSE "R"
    [] tk = "time"     -> IF v.k = "str" /\ Fact(v.s).time # "" THEN "A" ELSE "R"
    [] tk = "datetime" -> IF v.k = "str" /\ Fact(v.s).dt # "" THEN "A" ELSE "R"
    [] tk = "path"     -> IF v.k = "str" THEN "A" ELSE "R"
    [] tk = "pattern"  -> IF v.k = "str" /\ Fact(v.s).re = "ok" THEN "A" ELSE "R"
    [] tk = "patternb" -> IF v.k = "bytes" /\ Fact(v.s).re = "ok"
                          THEN (IF v.mut = "F" THEN "A" ELSE "D") ELSE "R"

ScalarImg(tk, v) ==
  CASE tk \in {"any", "none", "bool", "int", "str"} -> v
    [] tk = "float"   -> IF v.k = "float" THEN v ELSE MkFloat(IntQ(v.n))
    [] tk = "complex" -> IF v.k = "complex" THEN v
                         ELSE MkComplex(NumNum(v), Fin(Zero))
    [] tk = "bytes"     -> MkBytes(v.s)
    [] tk = "bytearray" -> MkBArr(v.s)
    [] tk = "decimal" ->
         LET nm == IF v.k = "str" THEN Fact(v.s).dec ELSE NumNum(v)
         IN  [k |-> "dec", q |-> nm.q, sp |-> IF nm.sp = "nzero" /\ v.k # "str" THEN "nzero" ELSE nm.sp]
    [] tk = "fraction" ->
         [k |-> "frac", q |-> IF v.k = "str" THEN Fact(v.s).fr ELSE NumNum(v).q]
    [] tk = "date"     -> [k |-> "date", s |-> Fact(v.s).date]
    [] tk = "time"     -> [k |-> "time", s |-> Fact(v.s).time]
    [] tk = "datetime" -> [k |-> "datetime", s |-> Fact(v.s).dt]
    [] tk = "path"     -> [k |-> "path", s |-> Fact(v.s).path]
    [] tk = "pattern"  -> [k |-> "pat", s |-> v.s, b |-> "F"]
    [] tk = "patternb" -> [k |-> "pat", s |-> v.s, b |-> "T"]

-----------------------------------------------------------------------------
(* Conditions: Holds(c, x) in {"T", "F", "X"}; "X" = the predicate raises.  *)
(* Python's semantics: comparisons with a number raise TypeError on        *)
(* non-real operands; len() raises on things without a length; all()/any() *)
(* evaluate left to right and stop at the first decisive operand.          *)
B3(b) == IF b THEN "T" ELSE "F"

HasLen(x) == x.k \in {"str", "bytes", "seq", "set", "map"} \/ (x.k = "ndarray" /\ x.shape # <<>>)
LenOf(x) ==
  CASE x.k \in {"str", "bytes"} -> Fact(x.s).len
    [] x.k = "seq" -> Len(x.xs)
    [] x.k = "set" -> Cardinality(x.es)
    [] x.k = "map" -> Len(x.ps)
    [] x.k = "ndarray" -> x.shape[1]

(* numpy broadcasting of shape a to shape b: aligned from the right, each axis equal or one of them 1 *)
Broadcastable(a, b) ==
  LET n == IF Len(a) < Len(b) THEN Len(a) ELSE Len(b) IN
  \A i \in 1..n : LET x == a[Len(a) - i + 1]  y == b[Len(b) - i + 1] IN x = y \/ x = 1 \/ y = 1

RECURSIVE Holds(_, _), HoldsAll(_, _, _), HoldsAny(_, _, _)
Holds(c, x) ==
  CASE x.k = "sub" -> Holds(c, x.x)        \* an instance of a subclass of a basic type behaves as its base value
    [] x.k = "ndarray" /\ c.k \in {"pos", "neg", "nonneg", "nonpos", "ge", "le", "finite", "even"} ->
         \* numpy compares element-wise; the truth value of the result is defined for one element only
         (IF Len(x.xs) = 1 /\ c.k # "finite" /\ c.k # "even" THEN Holds(c, x.xs[1]) ELSE IF Len(x.xs) = 1 THEN "D3" ELSE "X")
    [] x.k = "bigint" /\ c.k \notin {"utrue", "ufalse", "uraise", "not", "and", "or"} ->
         (IF c.k = "finite" THEN "X"          \* math.isfinite(10 ** 400) raises OverflowError
          ELSE IF c.k \in {"pos", "nonneg"} THEN "T" ELSE IF c.k \in {"neg", "nonpos", "even"} THEN (IF c.k = "even" THEN "T" ELSE "F")
          ELSE IF c.k = "ge" THEN "T" ELSE IF c.k = "le" THEN "F" ELSE "X")
    [] x.k = "dec" /\ x.sp = "nan" /\ c.k \in {"pos", "neg", "nonneg", "nonpos", "ge", "le"} ->
         "X"                                  \* ordering a Decimal NaN raises InvalidOperation (a float nan compares False)
    [] c.k = "pos"    -> IF IsReal(x) THEN B3(NumLt(Fin(Zero), NumNum(x))) ELSE "X"
    [] c.k = "neg"    -> IF IsReal(x) THEN B3(NumLt(NumNum(x), Fin(Zero))) ELSE "X"
    [] c.k = "nonneg" -> IF IsReal(x) THEN B3(NumLeq(Fin(Zero), NumNum(x))) ELSE "X"
    [] c.k = "nonpos" -> IF IsReal(x) THEN B3(NumLeq(NumNum(x), Fin(Zero))) ELSE "X"
    [] c.k = "finite" -> IF IsReal(x) THEN B3(NumFinite(NumNum(x))) ELSE "X"
    [] c.k = "empty"    -> IF HasLen(x) THEN B3(LenOf(x) = 0) ELSE "X"
    [] c.k = "nonempty" -> IF HasLen(x) THEN B3(LenOf(x) # 0) ELSE "X"
    [] c.k = "ge" -> IF IsReal(x) THEN B3(NumLeq(Fin(c.q), NumNum(x))) ELSE "X"
    [] c.k = "le" -> IF IsReal(x) THEN B3(NumLeq(NumNum(x), Fin(c.q))) ELSE "X"
    [] c.k = "lenge" -> IF HasLen(x) THEN B3(LenOf(x) >= c.n) ELSE "X"
    [] c.k = "lenle" -> IF HasLen(x) THEN B3(LenOf(x) <= c.n) ELSE "X"
    [] c.k = "shape"  -> IF x.k = "ndarray" THEN B3(x.shape = c.shape) ELSE "X"        \* no .shape attribute: raises
    [] c.k = "bcast"  -> IF x.k = "ndarray" THEN B3(Broadcastable(x.shape, c.shape)) ELSE "X"
    [] c.k = "utrue"  -> "T"
    [] c.k = "ufalse" -> "F"
    [] c.k = "uraise" -> "X"
    [] c.k = "even"   -> IF x.k = "int" THEN B3(x.n % 2 = 0) ELSE "X"
    [] c.k = "not" -> LET h == Holds(c.c, x) IN IF h = "X" THEN "X" ELSE IF h = "T" THEN "F" ELSE "T"
    [] c.k = "and" -> HoldsAll(c.cs, x, 1)
    [] c.k = "or"  -> HoldsAny(c.cs, x, 1)
HoldsAll(cs, x, i) ==
  IF i > Len(cs) THEN "T"
  ELSE LET h == Holds(cs[i], x) IN IF h = "T" THEN HoldsAll(cs, x, i + 1) ELSE h
HoldsAny(cs, x, i) ==
  IF i > Len(cs) THEN "F"
  ELSE LET h == Holds(cs[i], x) IN IF h = "F" THEN HoldsAny(cs, x, i + 1) ELSE h

(* val_range(min, max) and len_range(min, max) are all() of the one-sided conditions above *)
CValRange(hasmin, mn, hasmax, mx) ==
  [k |-> "and", cs |-> (IF hasmin THEN <<[k |-> "ge", q |-> mn]>> ELSE <<>>) \o
                       (IF hasmax THEN <<[k |-> "le", q |-> mx]>> ELSE <<>>)]
CLenRange(hasmin, mn, hasmax, mx) ==
  [k |-> "and", cs |-> (IF hasmin THEN <<[k |-> "lenge", n |-> mn]>> ELSE <<>>) \o
                       (IF hasmax THEN <<[k |-> "lenle", n |-> mx]>> ELSE <<>>)]

-----------------------------------------------------------------------------
(* dataclass helpers                                                        *)
IsInit(f)       == f.init = "T"
HasDefault(f)   == f.d.k # "nodef"
PosFields(C)    == SelectSeq(C.fs, LAMBDA f : f.kw = "F" /\ IsInit(f))
ReqCount(C)     == Len(SelectSeq(PosFields(C), LAMBDA f : ~HasDefault(f)))
FieldIdx(C, key) ==  \* index of the field that the data key binds to, 0 if none
  IF key.k # "str" THEN 0
  ELSE LET S == {i \in DOMAIN C.fs : IsInit(C.fs[i]) /\ \E j \in DOMAIN C.fs[i].ins : C.fs[i].ins[j] = key.s}
       IN IF S = {} THEN 0 ELSE CHOOSE i \in S : \A j \in S : i <= j
FieldByName(C, n) == C.fs[CHOOSE i \in DOMAIN C.fs : C.fs[i].n = n]

(* Binding of a mapping to a class: the sequence of <<field index, value>> for the known    *)
(* keys, plus flags.  Extra keys, duplicates and missing required fields each reject.       *)
BindMap(C, v) ==
  LET idx == [i \in DOMAIN v.ps |-> FieldIdx(C, v.ps[i][1])]
      known == {i \in DOMAIN v.ps : idx[i] # 0}
      extra == {i \in DOMAIN v.ps : idx[i] = 0}
      dup   == \E i, j \in known : i < j /\ idx[i] = idx[j]
      bound == {idx[i] : i \in known}
      missing == {j \in DOMAIN C.fs : j \notin bound /\ IsInit(C.fs[j]) /\ ~HasDefault(C.fs[j])}
  IN [idx |-> idx, known |-> known, extra |-> extra, dup |-> dup, bound |-> bound, missing |-> missing]

-----------------------------------------------------------------------------
(* tagged unions: extraction of <<tag, body>> from the data, per layout    *)
MapGet(v, keytok) ==  \* set of positions whose key is the string keytok
  {i \in DOMAIN v.ps : v.ps[i][1].k = "str" /\ v.ps[i][1].s = keytok}
SeqWithout(s, i) == [j \in 1..(Len(s) - 1) |-> IF j < i THEN s[j] ELSE s[j + 1]]

TagExtract(T, v) ==   \* [ok |-> BOOLEAN, tag |-> value, body |-> value]
  LET none == [ok |-> FALSE, tag |-> MkNone, body |-> MkNone] IN
  IF v.k # "map" THEN none
  ELSE (CASE T.lay = "int" ->
              LET S == MapGet(v, T.tag) IN
              IF S = {} THEN none
              ELSE LET i == CHOOSE i \in S : TRUE IN
                   [ok |-> TRUE, tag |-> v.ps[i][2], body |-> MkMap(v.f, SeqWithout(v.ps, i))]
         [] T.lay = "ext" ->
              IF Len(v.ps) # 1 THEN none
              ELSE [ok |-> TRUE, tag |-> v.ps[1][1], body |-> v.ps[1][2]]
         [] T.lay = "adj" ->
              LET St == MapGet(v, T.tk)
                  Sc == MapGet(v, T.ck) IN
              IF Len(v.ps) # 2 \/ St = {} \/ Sc = {} THEN none
              ELSE [ok |-> TRUE, tag |-> v.ps[CHOOSE i \in St : TRUE][2],
                                 body |-> v.ps[CHOOSE i \in Sc : TRUE][2]])

(* which variant the tag selects: 0 none; -1 don't-care (equal to a declared tag only     *)
(* across kinds, e.g. True for 1)                                                         *)
TagVariant(T, tag) ==
  LET exact == {i \in DOMAIN T.tags : SameKindEq(T.tags[i], tag)}
      loose == {i \in DOMAIN T.tags : IsAtom(tag) /\ PyEq(T.tags[i], tag)}
  IN IF exact # {} THEN CHOOSE i \in exact : TRUE
     ELSE IF loose # {} THEN -1 ELSE 0

-----------------------------------------------------------------------------
(* The semantics proper.                                                   *)
(* n-d arrays: nested sequences, rectangular; a non-sequence is a 0-d array *)
RECURSIVE NdShape(_), NdFlat(_)
NdShape(v) ==     \* <<-1>> when ragged
  IF v.k # "seq" THEN <<>>
  ELSE IF v.xs = <<>> THEN <<0>>
  ELSE LET subs == [i \in DOMAIN v.xs |-> NdShape(v.xs[i])] IN
       IF (\E i \in DOMAIN subs : subs[i] = <<-1>>) \/ (\E i \in DOMAIN subs : subs[i] # subs[1]) THEN <<-1>>
       ELSE <<Len(v.xs)>> \o subs[1]
NdFlat(v) == IF v.k # "seq" THEN <<v>>
             ELSE IF v.xs = <<>> THEN <<>> ELSE NdFlat(v.xs[1]) \o NdFlat([v EXCEPT !.xs = Tail(v.xs)])

RECURSIVE Verdict(_, _), Img(_, _), UnionPick(_, _, _), ClsVerdict(_, _), ClsImg(_, _), ClsImgRaw(_, _),
          FieldVals(_, _, _)

(* pane.types.ValueOrList[T] reads like Union[T, List[T]] *)
VolAlts(T) == <<T.e, [k |-> "list", e |-> T.e]>>

(* The shipped Range helper (pane/types.py, pinned by tests/test_types.py): fv = <<start, end, n, step>>  *)
(* as converted by the field types.  Exactly one of n / step must be given.  From step: a zero step is   *)
(* refused, n = 1 + ceil(span / step) if span > 0 else 0.  From n: for integer ranges span must be       *)
(* divisible by n - 1 (n = 1 divides by zero: refused), step = span / (n - 1) if n > 1 else None.        *)
(* Result [v |-> verdict, fv |-> the field values after the hook].  Non-finite numbers, negative zero,   *)
(* quotients that are no small rational / no exact float are left open ("D").                            *)
RangeHook(fv) ==
  LET s == fv[1]  e == fv[2]  n == fv[3]  st == fv[4]
      fin(x) == x.k = "int" \/ (x.k = "float" /\ x.sp = "fin")
      open == [v |-> "D", fv |-> fv]
      no   == [v |-> "R", fv |-> fv] IN
  IF ~fin(s) \/ ~fin(e) \/ (st.k # "none" /\ ~fin(st)) \/ n.k \notin {"none", "int"} THEN open
  ELSE IF (n.k = "none") = (st.k = "none") THEN no
  ELSE LET span == RSub(NumNum(e).q, NumNum(s).q) IN
       IF st.k # "none"
       THEN LET sq == NumNum(st).q IN
            IF sq[1] = 0 THEN no
            ELSE LET q == RDiv(span, sq) IN
                 IF q[2] > 1000 THEN open
                 ELSE [v |-> "A", fv |-> [fv EXCEPT ![3] = MkInt(IF RLt(Zero, span) THEN 1 + RCeil(q) ELSE 0)]]
       ELSE LET nn == n.n IN
            IF s.k # "float"
            THEN (IF nn = 1 THEN no
                  ELSE IF nn >= 2 /\ span[1] % (nn - 1) # 0 THEN no      \* (n = 0: Python's span % -1 is 0)
                  ELSE [v |-> "A", fv |-> [fv EXCEPT ![4] = IF nn > 1 THEN MkInt(span[1] \div (nn - 1)) ELSE MkNone]])
            ELSE (IF nn <= 1 THEN [v |-> "A", fv |-> fv]
                  ELSE LET q == RDiv(span, <<nn - 1, 1>>) IN
                       IF ~IsPow2(q[2]) THEN open
                       ELSE [v |-> "A", fv |-> [fv EXCEPT ![4] = MkFloat(q)]])

(* left-most member that does not certainly reject: <<index, verdict>>; <<0,"R">> if none *)
UnionPick(alts, v, i) ==
  IF i > Len(alts) THEN <<0, "R">>
  ELSE LET r == Verdict(alts[i], v) IN
       IF r = "R" THEN UnionPick(alts, v, i + 1) ELSE <<i, r>>

Verdict(T, v) ==
  CASE T.k \in ScalarKinds -> ScalarVerdict(T.k, v)
    [] T.k \in SeqKinds ->
         IF ~IsSeqV(v) THEN "R"
         ELSE LET r == KSeq([i \in DOMAIN v.xs |-> Verdict(T.e, v.xs[i])]) IN
              IF r # "A" \/ T.k \notin {"set", "frozenset"} THEN r
              ELSE LET imgs == [i \in DOMAIN v.xs |-> Img(T.e, v.xs[i])] IN
                   IF \E i \in DOMAIN imgs : ~Hashable(imgs[i]) THEN "R"
                   ELSE IF \E i, j \in DOMAIN imgs : i < j /\ imgs[i] # imgs[j] /\ PyEq(imgs[i], imgs[j])
                        THEN "D" ELSE "A"
    [] T.k = "tuple" ->
         IF ~IsSeqV(v) \/ Len(v.xs) # Len(T.es) THEN "R"
         ELSE KSeq([i \in DOMAIN T.es |-> Verdict(T.es[i], v.xs[i])])
    [] T.k \in DictKinds ->
         IF ~IsMapV(v) THEN "R"
         ELSE LET vt == IF T.k = "counter" THEN [k |-> "int"] ELSE T.vt
                  r == KAnd(KSeq([i \in DOMAIN v.ps |-> Verdict(T.kt, v.ps[i][1])]),
                            KSeq([i \in DOMAIN v.ps |-> Verdict(vt, v.ps[i][2])])) IN
              IF r # "A" THEN r
              ELSE LET keys == [i \in DOMAIN v.ps |-> Img(T.kt, v.ps[i][1])] IN
                   IF \E i \in DOMAIN keys : ~Hashable(keys[i]) THEN "R"
                   ELSE IF Collides(keys) THEN "D" ELSE "A"
    [] T.k = "struct" ->
         IF ~IsMapV(v) THEN "R"
         ELSE LET names == {T.fs[i][1] : i \in DOMAIN T.fs}
                  keyok(i) == v.ps[i][1].k = "str" /\ v.ps[i][1].s \in names
                  present == {v.ps[i][1].s : i \in {j \in DOMAIN v.ps : v.ps[j][1].k = "str"}}
                  ftype(n) == T.fs[CHOOSE j \in DOMAIN T.fs : T.fs[j][1] = n][2] IN
              IF \E i \in DOMAIN v.ps : ~keyok(i) THEN "R"
              ELSE IF names \ present # {} THEN "R"
              ELSE KSeq([i \in DOMAIN v.ps |-> Verdict(ftype(v.ps[i][1].s), v.ps[i][2])])
    [] T.k = "union" -> UnionPick(T.alts, v, 1)[2]
    [] T.k = "lit" ->
         IF ~IsAtom(v) THEN "R"
         ELSE IF \E i \in DOMAIN T.vs : SameKindEq(T.vs[i], v) THEN "A"
         ELSE IF \E i \in DOMAIN T.vs : PyEq(T.vs[i], v) THEN "D" ELSE "R"
    [] T.k = "enum" ->
         \* the value must be of the kind of some member value (C02: a float is never an int);
         \* only bool/int, which the int column leaves open, stay don't-care
         IF IsSeqV(v)          \* a member whose value is a tuple is written as a sequence of the same elements
         THEN (IF \E i \in DOMAIN v.xs : ~IsAtom(v.xs[i]) THEN "R"          \* (tuple members of the universe hold atoms)
               ELSE IF \E i \in DOMAIN T.vs : T.vs[i].k = "seq" /\ Len(T.vs[i].xs) = Len(v.xs)
                                               /\ \A j \in DOMAIN v.xs : SameKindEq(T.vs[i].xs[j], v.xs[j]) THEN "A"
               ELSE IF \E i \in DOMAIN T.vs : T.vs[i].k = "seq" /\ PyEq(T.vs[i], MkTuple(v.xs)) THEN "D" ELSE "R")
         ELSE IF ~IsAtom(v) THEN "R"
         ELSE IF \E i \in DOMAIN T.vs : SameKindEq(T.vs[i], v) THEN "A"
         ELSE IF \E i \in DOMAIN T.vs : PyEq(T.vs[i], v) /\ {T.vs[i].k, v.k} = {"bool", "int"} THEN "D" ELSE "R"
    [] T.k = "ann" ->
         LET r == Verdict(T.t, v) IN
         IF r # "A" THEN r
         ELSE LET h == HoldsAll(T.cs, Img(T.t, v), 1) IN
              IF h = "T" THEN "A" ELSE IF h = "D3" THEN "D" ELSE "R"
    [] T.k = "sub" -> Verdict(T.base, v)
    [] T.k = "tvar" ->
         (CASE T.var = "free"   -> "A"
            [] T.var = "bound"  -> Verdict(T.ts[1], v)
            [] T.var = "constr" -> UnionPick(T.ts, v, 1)[2])
    [] T.k = "tagged" ->
         LET te == TagExtract(T, v) IN
         IF ~te.ok THEN "R"
         ELSE LET i == TagVariant(T, te.tag) IN
              IF i = 0 THEN "R" ELSE IF i = -1 THEN "D" ELSE Verdict(T.vars[i], te.body)
    [] T.k = "cls" -> ClsVerdict(T, v)
    [] T.k = "vol" -> UnionPick(VolAlts(T), v, 1)[2]
    [] T.k = "ndarray" ->
         LET flat == NdFlat(v)
             r == KSeq([i \in DOMAIN flat |-> Verdict(T.e, flat[i])]) IN
         IF r = "R" THEN "R"
         ELSE IF NdShape(v) = <<-1>> THEN "R"                       \* ragged
         ELSE IF T.e.k \notin {"int", "float", "bool"} \/ (\E i \in DOMAIN flat : flat[i].k = "bigint")
              THEN "D"        \* what numpy makes of other element kinds (and of integers beyond int64) is left open
         ELSE r

(* values the fields of an instance take: bound ones converted, the others defaulted *)
FieldVals(C, v, b) ==
  [j \in DOMAIN C.fs |->
     IF j \in b.bound
     THEN Img(C.fs[j].t, v.ps[CHOOSE i \in b.known : b.idx[i] = j][2])
     ELSE Dec(C.fs[j].d.v)]

HookRejects(C, vals, setnames) ==
  IF C.hook.k = "nohook" THEN "F"
  ELSE IF C.hook.k = "rejectifset" THEN B3(C.hook.f \in setnames)
  ELSE LET j == CHOOSE j \in DOMAIN C.fs : C.fs[j].n = C.hook.f IN Holds(C.hook.c, vals[j])
(* verdict of the class' __post_init__ on the converted field values, and the values it leaves behind *)
HookVerdict(C, vals, setnames) ==
  IF C.hook.k = "rangehook" THEN RangeHook(vals).v
  ELSE IF HookRejects(C, vals, setnames) = "F" THEN "A" ELSE "R"
HookVals(C, vals) == IF C.hook.k = "rangehook" THEN RangeHook(vals).fv ELSE vals

ClsVerdict(C, v) ==
  IF IsMapV(v) THEN
       IF "struct" \notin Range(C.inf) THEN "R"
       ELSE LET b == BindMap(C, v) IN
            IF (b.extra # {} /\ C.extra = "F") \/ b.dup \/ b.missing # {} THEN "R"
            ELSE LET r == KSeq([i \in DOMAIN v.ps |->
                                  IF i \in b.known THEN Verdict(C.fs[b.idx[i]].t, v.ps[i][2]) ELSE "A"]) IN
                 IF r # "A" THEN r
                 ELSE HookVerdict(C, FieldVals(C, v, b), {C.fs[j].n : j \in b.bound})
  ELSE IF IsSeqV(v) THEN
       IF "tuple" \notin Range(C.inf) THEN "R"
       ELSE LET pos == PosFields(C) IN
            IF Len(v.xs) < ReqCount(C) \/ Len(v.xs) > Len(pos) THEN "R"
            ELSE LET r == KSeq([i \in DOMAIN v.xs |-> Verdict(pos[i].t, v.xs[i])]) IN
                 IF r # "A" THEN r
                 ELSE HookVerdict(C, ClsImgRaw(C, v).fv, ClsImgRaw(C, v).set)
  ELSE "R"

(* [fv |-> field values in field order, set |-> names explicitly supplied] *)
ClsImg(C, v) == LET r == ClsImgRaw(C, v) IN [r EXCEPT !.fv = HookVals(C, r.fv)]
ClsImgRaw(C, v) ==
  IF IsMapV(v)
  THEN LET b == BindMap(C, v) IN
       [fv |-> FieldVals(C, v, b), set |-> {C.fs[j].n : j \in b.bound}]
  ELSE LET pos == PosFields(C)
           n == Len(v.xs)
           pidx(j) == \* position of field j among the positional fields, 0 if keyword-only / not init
              IF C.fs[j].kw = "T" \/ ~IsInit(C.fs[j]) THEN 0
              ELSE Cardinality({i \in 1..j : C.fs[i].kw = "F" /\ IsInit(C.fs[i])}) IN
       [fv |-> [j \in DOMAIN C.fs |->
                  IF pidx(j) # 0 /\ pidx(j) <= n THEN Img(C.fs[j].t, v.xs[pidx(j)]) ELSE Dec(C.fs[j].d.v)],
        set |-> {C.fs[j].n : j \in {i \in DOMAIN C.fs : pidx(i) # 0 /\ pidx(i) <= n}}]

MkInst(C, ci) ==
  [k |-> "inst", c |-> C.name,
   fs |-> [j \in DOMAIN C.fs |-> <<C.fs[j].n, ci.fv[j]>>],
   set |-> ci.set]

(* the image; only meaningful where Verdict(T, v) = "A" *)
Img(T, v) ==
  CASE T.k \in ScalarKinds -> ScalarImg(T.k, v)
    [] T.k = "list"      -> MkSeq("list",  [i \in DOMAIN v.xs |-> Img(T.e, v.xs[i])])
    [] T.k = "tuplevar"  -> MkSeq("tuple", [i \in DOMAIN v.xs |-> Img(T.e, v.xs[i])])
    [] T.k = "deque"     -> MkSeq("deque", [i \in DOMAIN v.xs |-> Img(T.e, v.xs[i])])
    [] T.k = "set"       -> MkSet("set",       {Img(T.e, v.xs[i]) : i \in DOMAIN v.xs})
    [] T.k = "frozenset" -> MkSet("frozenset", {Img(T.e, v.xs[i]) : i \in DOMAIN v.xs})
    [] T.k = "tuple"     -> MkSeq("tuple", [i \in DOMAIN T.es |-> Img(T.es[i], v.xs[i])])
    [] T.k \in {"dict", "defaultdict", "ordereddict"} ->
         MkMap(T.k, [i \in DOMAIN v.ps |-> <<Img(T.kt, v.ps[i][1]), Img(T.vt, v.ps[i][2])>>])
    [] T.k = "counter" ->
         MkMap("counter", [i \in DOMAIN v.ps |-> <<Img(T.kt, v.ps[i][1]), v.ps[i][2]>>])
    [] T.k = "struct" ->
         LET ftype(n) == T.fs[CHOOSE j \in DOMAIN T.fs : T.fs[j][1] = n][2] IN
         MkMap("dict", [i \in DOMAIN v.ps |-> <<v.ps[i][1], Img(ftype(v.ps[i][1].s), v.ps[i][2])>>])
    [] T.k = "union" -> Img(T.alts[UnionPick(T.alts, v, 1)[1]], v)
    [] T.k = "lit"   -> v
    [] T.k = "enum"  -> [k |-> "enum", e |-> T.name,
                         i |-> IF IsSeqV(v)
                               THEN CHOOSE i \in DOMAIN T.vs : T.vs[i].k = "seq" /\ Len(T.vs[i].xs) = Len(v.xs)
                                                                /\ \A j \in DOMAIN v.xs : SameKindEq(T.vs[i].xs[j], v.xs[j])
                               ELSE CHOOSE i \in DOMAIN T.vs : SameKindEq(T.vs[i], v)]
    [] T.k = "ann"   -> Img(T.t, v)
    [] T.k = "sub"   -> [k |-> "sub", c |-> T.name, x |-> Img(T.base, v)]
    [] T.k = "tvar"  ->
         (CASE T.var = "free"   -> v
            [] T.var = "bound"  -> Img(T.ts[1], v)
            [] T.var = "constr" -> Img(T.ts[UnionPick(T.ts, v, 1)[1]], v))
    [] T.k = "tagged" ->
         LET te == TagExtract(T, v) IN Img(T.vars[TagVariant(T, te.tag)], te.body)
    [] T.k = "cls" -> MkInst(T, ClsImg(T, v))
    [] T.k = "vol" -> LET p == UnionPick(VolAlts(T), v, 1)[1] IN
                      [k |-> "vol", one |-> IF p = 1 THEN "T" ELSE "F", x |-> Img(VolAlts(T)[p], v)]
    [] T.k = "ndarray" -> LET flat == NdFlat(v) IN
                          [k |-> "ndarray", shape |-> NdShape(v), xs |-> [i \in DOMAIN flat |-> Img(T.e, flat[i])]]

-----------------------------------------------------------------------------
(* Serialisation, relationally: SerOK(T, x, d) - d is an allowed into_data *)
(* of the typed value x under T.                                           *)
TagOutName(V, tag) == IF V.k = "cls" /\ \E i \in DOMAIN V.fs : V.fs[i].n = tag THEN FieldByName(V, tag).out ELSE tag
RECURSIVE SerOK(_, _, _)
SerOK(T, x, d) ==
  CASE T.k \in {"none", "bool", "int", "float", "complex", "str", "bytes", "bytearray", "lit"} -> d = x
    [] T.k = "any"      -> d = x
    [] T.k = "decimal"  -> d.k = "str" /\ x.k = "dec" /\ Fact(d.s).dec = [q |-> x.q, sp |-> x.sp]
    [] T.k = "fraction" -> d.k = "str" /\ x.k = "frac" /\ Fact(d.s).fr = x.q
    [] T.k \in {"date", "time", "datetime", "path"} -> x.k = T.k /\ d.k = "str" /\ d.s = x.s
    [] T.k = "pattern"  -> x.k = "pat" /\ d.k = "str" /\ d.s = x.s
    [] T.k = "patternb" -> x.k = "pat" /\ d.k = "bytes" /\ d.s = x.s
    [] T.k \in {"list", "tuplevar", "deque"} ->
         /\ d.k = "seq" /\ x.k = "seq"      \* (a list or a tuple: which of the two is written is not part of the contract)
         /\ Len(d.xs) = Len(x.xs)
         /\ \A i \in DOMAIN x.xs : SerOK(T.e, x.xs[i], d.xs[i])
    [] T.k \in {"set", "frozenset"} ->
         /\ d.k = "seq" /\ x.k = "set"
         /\ Len(d.xs) = Cardinality(x.es)
         /\ \A e \in x.es : \E i \in DOMAIN d.xs : SerOK(T.e, e, d.xs[i])
         /\ \A i \in DOMAIN d.xs : \E e \in x.es : SerOK(T.e, e, d.xs[i])
    [] T.k = "tuple" ->
         /\ d.k = "seq" /\ x.k = "seq"
         /\ Len(d.xs) = Len(x.xs) /\ Len(x.xs) = Len(T.es)
         /\ \A i \in DOMAIN x.xs : SerOK(T.es[i], x.xs[i], d.xs[i])
    [] T.k \in DictKinds ->
         LET vt == IF T.k = "counter" THEN [k |-> "int"] ELSE T.vt IN
         /\ d.k = "map" /\ x.k = "map" /\ d.f = "dict"
         /\ Len(d.ps) = Len(x.ps)
         /\ \A i \in DOMAIN x.ps : SerOK(T.kt, x.ps[i][1], d.ps[i][1]) /\ SerOK(vt, x.ps[i][2], d.ps[i][2])
    [] T.k = "struct" ->
         LET ftype(n) == T.fs[CHOOSE j \in DOMAIN T.fs : T.fs[j][1] = n][2] IN
         /\ d.k = "map" /\ x.k = "map" /\ d.f = "dict"
         /\ Len(d.ps) = Len(x.ps)
         /\ \A i \in DOMAIN x.ps : x.ps[i][1].k = "str" /\ \E j \in DOMAIN T.fs : T.fs[j][1] = x.ps[i][1].s
         /\ \A i \in DOMAIN x.ps : d.ps[i][1] = x.ps[i][1] /\ SerOK(ftype(x.ps[i][1].s), x.ps[i][2], d.ps[i][2])
    [] T.k = "union" -> \E i \in DOMAIN T.alts : SerOK(T.alts[i], x, d)
    [] T.k = "ndarray" -> x.k = "ndarray" /\ NdShape(d) = x.shape /\ Len(NdFlat(d)) = Len(x.xs)
                          /\ \A i \in DOMAIN x.xs : SerOK(T.e, x.xs[i], NdFlat(d)[i])
    [] T.k = "enum"  -> x.k = "enum" /\ x.e = T.name /\ x.i \in DOMAIN T.vs /\ d = T.vs[x.i]
    [] T.k = "vol"   -> x.k = "vol" /\ SerOK(VolAlts(T)[IF x.one = "T" THEN 1 ELSE 2], x.x, d)
    [] T.k = "ann"   -> SerOK(T.t, x, d)
    [] T.k = "sub"   -> x.k = "sub" /\ (SerOK(T.base, x.x, d) \/ (d = x /\ x.x.k \in AtomKinds))   \* the base value, or (a scalar) itself
    [] T.k = "tvar"  ->
         (CASE T.var = "free"   -> d = x
            [] T.var = "bound"  -> SerOK(T.ts[1], x, d)
            [] T.var = "constr" -> \E i \in DOMAIN T.ts : SerOK(T.ts[i], x, d))
    [] T.k = "tagged" ->
         /\ x.k = "inst"
         /\ \E i \in DOMAIN T.vars :
              /\ T.vars[i].name = x.c
              /\ (CASE T.lay = "int" ->
                         \* the variant's own form, except that the tag stands under the tag's name (where parsing looks for it)
                         \* however the variant spells its tag field in data
                         LET o == TagOutName(T.vars[i], T.tag)
                             d0 == IF d.k = "map" /\ o # T.tag
                                   THEN [d EXCEPT !.ps = [j \in DOMAIN d.ps |-> IF d.ps[j][1] = MkStr(T.tag) THEN <<MkStr(o), d.ps[j][2]>> ELSE d.ps[j]]]
                                   ELSE d IN
                         /\ SerOK(T.vars[i], x, d0)
                         /\ (d.k = "map" /\ o # T.tag) => \A j \in DOMAIN d.ps : d.ps[j][1] # MkStr(o)
                    [] T.lay = "ext" -> /\ d.k = "map" /\ d.f = "dict" /\ Len(d.ps) = 1
                                        /\ d.ps[1][1] = T.tags[i] /\ SerOK(T.vars[i], x, d.ps[1][2])
                    [] T.lay = "adj" -> /\ d.k = "map" /\ d.f = "dict" /\ Len(d.ps) = 2
                                        /\ d.ps[1][1] = MkStr(T.tk) /\ d.ps[1][2] = T.tags[i]
                                        /\ d.ps[2][1] = MkStr(T.ck) /\ SerOK(T.vars[i], x, d.ps[2][2]))
    [] T.k = "cls" ->
         LET outs == SelectSeq(T.fs, LAMBDA f : f.ex = "F")
             xval(n) == x.fs[CHOOSE j \in DOMAIN x.fs : x.fs[j][1] = n][2] IN
         /\ x.k = "inst" /\ x.c = T.name
         /\ \A i \in DOMAIN outs : \E j \in DOMAIN x.fs : x.fs[j][1] = outs[i].n
         /\ IF T.outf = "struct"
            THEN /\ d.k = "map" /\ d.f = "dict" /\ Len(d.ps) = Len(outs)
                 /\ \A i \in DOMAIN outs : d.ps[i][1] = MkStr(outs[i].out) /\ SerOK(outs[i].t, xval(outs[i].n), d.ps[i][2])
            ELSE /\ d.k = "seq" /\ d.f = "tuple" /\ Len(d.xs) = Len(outs)
                 /\ \A i \in DOMAIN outs : SerOK(outs[i].t, xval(outs[i].n), d.xs[i])

-----------------------------------------------------------------------------
(* Preconditions of the round-trip properties (C05, C06).                                   *)
(* OutEnabled(T): every dataclass inside T writes a form it reads back: the output layout is *)
(* an enabled input layout, each written name is an input name of its field, and excluded    *)
(* fields can be re-created from a default.                                                  *)
RECURSIVE OutEnabled(_)
OutEnabled(T) ==
  CASE T.k \in ScalarKinds \cup {"lit", "enum", "ndarray"} -> TRUE
    [] T.k \in SeqKinds -> OutEnabled(T.e)
    [] T.k = "tuple" -> \A i \in DOMAIN T.es : OutEnabled(T.es[i])
    [] T.k \in {"dict", "defaultdict", "ordereddict"} -> OutEnabled(T.kt) /\ OutEnabled(T.vt)
    [] T.k = "counter" -> OutEnabled(T.kt)
    [] T.k = "struct" -> \A i \in DOMAIN T.fs : OutEnabled(T.fs[i][2])
    [] T.k = "union" -> \A i \in DOMAIN T.alts : OutEnabled(T.alts[i])
    [] T.k = "ann" -> OutEnabled(T.t)
    [] T.k = "vol" -> OutEnabled(T.e)
    [] T.k = "sub" -> OutEnabled(T.base)
    [] T.k = "tvar" -> \A i \in DOMAIN T.ts : OutEnabled(T.ts[i])
    [] T.k = "tagged" -> \A i \in DOMAIN T.vars : OutEnabled(T.vars[i])
    [] T.k = "cls" ->
         /\ T.outf \in Range(T.inf)
         /\ T.hook.k # "rejectifset"      \* (a hook that judges which fields were given explicitly: what is written gives all of them)
         /\ \A i \in DOMAIN T.fs :
              LET f == T.fs[i] IN
              /\ OutEnabled(f.t)
              /\ (f.ex = "T" \/ f.init = "F") => HasDefault(f)
              /\ (f.ex = "F" /\ T.outf = "struct") => \E j \in DOMAIN f.ins : f.ins[j] = f.out
              /\ (f.ex = "F") => f.init = "T"

(* C06's quantifier: convert() parses the value's OWN serialised form, so T ranges over the types    *)
(* that read that form: no externally / adjacently tagged union (they wrap the variant) anywhere in T *)
RECURSIVE ReadsOwnForm(_)
ReadsOwnForm(T) ==
  CASE T.k \in ScalarKinds \cup {"lit", "enum", "ndarray"} -> TRUE
    [] T.k \in SeqKinds -> ReadsOwnForm(T.e)
    [] T.k = "tuple" -> \A i \in DOMAIN T.es : ReadsOwnForm(T.es[i])
    [] T.k \in {"dict", "defaultdict", "ordereddict"} -> ReadsOwnForm(T.kt) /\ ReadsOwnForm(T.vt)
    [] T.k = "counter" -> ReadsOwnForm(T.kt)
    [] T.k = "struct" -> \A i \in DOMAIN T.fs : ReadsOwnForm(T.fs[i][2])
    [] T.k = "union" -> \A i \in DOMAIN T.alts : ReadsOwnForm(T.alts[i])
    [] T.k = "ann" -> ReadsOwnForm(T.t)
    [] T.k = "vol" -> ReadsOwnForm(T.e)
    [] T.k = "sub" -> ReadsOwnForm(T.base)
    [] T.k = "tvar" -> \A i \in DOMAIN T.ts : ReadsOwnForm(T.ts[i])
    [] T.k = "tagged" -> T.lay = "int" /\ \A i \in DOMAIN T.vars : ReadsOwnForm(T.vars[i])
    [] T.k = "cls" -> \A i \in DOMAIN T.fs : ReadsOwnForm(T.fs[i].t)

(* <<class name, field name>> of every field excluded from output anywhere inside T *)
RECURSIVE ExSet(_)
ExSet(T) ==
  CASE T.k \in ScalarKinds \cup {"lit", "enum", "ndarray"} -> {}
    [] T.k \in SeqKinds -> ExSet(T.e)
    [] T.k = "tuple" -> UNION {ExSet(T.es[i]) : i \in DOMAIN T.es}
    [] T.k \in {"dict", "defaultdict", "ordereddict"} -> ExSet(T.kt) \cup ExSet(T.vt)
    [] T.k = "counter" -> ExSet(T.kt)
    [] T.k = "struct" -> UNION {ExSet(T.fs[i][2]) : i \in DOMAIN T.fs}
    [] T.k = "union" -> UNION {ExSet(T.alts[i]) : i \in DOMAIN T.alts}
    [] T.k = "ann" -> ExSet(T.t)
    [] T.k = "vol" -> ExSet(T.e)
    [] T.k = "sub" -> ExSet(T.base)
    [] T.k = "tvar" -> UNION {ExSet(T.ts[i]) : i \in DOMAIN T.ts}
    [] T.k = "tagged" -> UNION {ExSet(T.vars[i]) : i \in DOMAIN T.vars}
    [] T.k = "cls" -> {<<T.name, T.fs[i].n>> : i \in {j \in DOMAIN T.fs : T.fs[j].ex = "T"}}
                      \cup UNION {ExSet(T.fs[i].t) : i \in DOMAIN T.fs}

(* Python's == on typed values, modulo the fields the user excluded: set-field records are    *)
(* not compared by ==, excluded fields are blanked                                            *)
RECURSIVE StripX(_, _)
StripX(x, ES) ==
  CASE x.k = "seq"  -> [x EXCEPT !.xs = [i \in DOMAIN x.xs |-> StripX(x.xs[i], ES)]]
    [] x.k = "map"  -> [x EXCEPT !.ps = [i \in DOMAIN x.ps |-> <<StripX(x.ps[i][1], ES), StripX(x.ps[i][2], ES)>>]]
    [] x.k = "set"  -> [x EXCEPT !.es = {StripX(y, ES) : y \in x.es}]
    [] x.k = "sub"  -> [x EXCEPT !.x = StripX(x.x, ES)]
    [] x.k = "vol"  -> [x EXCEPT !.x = StripX(x.x, ES)]
    [] x.k = "inst" -> [x EXCEPT !.fs = [i \in DOMAIN x.fs |->
                                           <<x.fs[i][1], IF <<x.c, x.fs[i][1]>> \in ES THEN MkNone ELSE StripX(x.fs[i][2], ES)>>],
                                 !.set = {}]
    [] OTHER -> x

(* values made only of the container flavours pane itself produces (an arbitrary Sequence or  *)
(* Mapping passed through Any is returned as is; what it serialises to is left open)          *)
(* A NaN (float, Decimal, complex part) is not equal to itself: as a mapping key or set element it   *)
(* makes "equals x" meaningless (two NaN keys are distinct keys that serialise to the same text), so *)
(* such values are outside the round-trip properties.                                                *)
RECURSIVE HasNaN(_)
HasNaN(x) ==
  CASE x.k \in {"float", "dec"} -> x.sp = "nan"
    [] x.k = "complex" -> x.re.sp = "nan" \/ x.im.sp = "nan"
    [] x.k = "seq"  -> \E i \in DOMAIN x.xs : HasNaN(x.xs[i])
    [] x.k = "set"  -> \E y \in x.es : HasNaN(y)
    [] x.k = "sub"  -> HasNaN(x.x)
    [] x.k = "inst" -> \E i \in DOMAIN x.fs : HasNaN(x.fs[i][2])
    [] OTHER -> FALSE
RECURSIVE StdVal(_)
StdVal(x) ==
  CASE x.k = "seq"  -> x.f # "other" /\ \A i \in DOMAIN x.xs : StdVal(x.xs[i])
    [] x.k = "map"  -> x.f \notin {"proxy", "ddlist"} /\ \A i \in DOMAIN x.ps : StdVal(x.ps[i][1]) /\ StdVal(x.ps[i][2]) /\ ~HasNaN(x.ps[i][1])
    [] x.k = "set"  -> \A y \in x.es : StdVal(y) /\ ~HasNaN(y)
    [] x.k = "sub"  -> StdVal(x.x)
    [] x.k = "vol"  -> StdVal(x.x)
    [] x.k = "inst" -> \A i \in DOMAIN x.fs : StdVal(x.fs[i][2])
    [] OTHER -> TRUE

-----------------------------------------------------------------------------
(* Equality of serialised data up to the order in which sets were written:  *)
(* d2 is d with some sequences permuted; we accept permutation only where   *)
(* the type says the position holds a set.                                  *)
RECURSIVE DataEqUpToSets(_, _, _)
DataEqUpToSets(T, d, d2) ==
  IF d = d2 THEN TRUE
  ELSE CASE T.k \in {"set", "frozenset"} ->
              /\ d.k = "seq" /\ d2.k = "seq" /\ Len(d.xs) = Len(d2.xs)
              /\ \A i \in DOMAIN d.xs : \E j \in DOMAIN d2.xs : DataEqUpToSets(T.e, d.xs[i], d2.xs[j])
              /\ \A j \in DOMAIN d2.xs : \E i \in DOMAIN d.xs : DataEqUpToSets(T.e, d.xs[i], d2.xs[j])
         [] T.k \in {"list", "tuplevar", "deque"} ->
              d.k = "seq" /\ d2.k = "seq" /\ d.f = d2.f /\ Len(d.xs) = Len(d2.xs)
              /\ \A i \in DOMAIN d.xs : DataEqUpToSets(T.e, d.xs[i], d2.xs[i])
         [] T.k = "tuple" ->
              d.k = "seq" /\ d2.k = "seq" /\ d.f = d2.f /\ Len(d.xs) = Len(d2.xs) /\ Len(d.xs) = Len(T.es)
              /\ \A i \in DOMAIN d.xs : DataEqUpToSets(T.es[i], d.xs[i], d2.xs[i])
         [] T.k \in DictKinds ->
              LET vt == IF T.k = "counter" THEN [k |-> "int"] ELSE T.vt IN
              d.k = "map" /\ d2.k = "map" /\ Len(d.ps) = Len(d2.ps)
              /\ \A i \in DOMAIN d.ps : DataEqUpToSets(T.kt, d.ps[i][1], d2.ps[i][1]) /\ DataEqUpToSets(vt, d.ps[i][2], d2.ps[i][2])
         [] T.k = "struct" ->
              d.k = "map" /\ d2.k = "map" /\ Len(d.ps) = Len(d2.ps)
              /\ \A i \in DOMAIN d.ps : /\ d.ps[i][1] = d2.ps[i][1] /\ d.ps[i][1].k = "str"
                                         /\ \E j \in DOMAIN T.fs : T.fs[j][1] = d.ps[i][1].s /\ DataEqUpToSets(T.fs[j][2], d.ps[i][2], d2.ps[i][2])
         [] T.k = "union" -> \E i \in DOMAIN T.alts : DataEqUpToSets(T.alts[i], d, d2)
         [] T.k = "ann" -> DataEqUpToSets(T.t, d, d2)
         [] T.k = "vol" -> DataEqUpToSets(T.e, d, d2) \/ DataEqUpToSets(VolAlts(T)[2], d, d2)
         [] T.k = "sub" -> DataEqUpToSets(T.base, d, d2)
         [] T.k = "tvar" -> \E i \in DOMAIN T.ts : DataEqUpToSets(T.ts[i], d, d2)
         [] T.k = "tagged" ->
              \E i \in DOMAIN T.vars :
                 (CASE T.lay = "int" -> DataEqUpToSets(T.vars[i], d, d2)
                    [] T.lay = "ext" -> d.k = "map" /\ d2.k = "map" /\ Len(d.ps) = 1 /\ Len(d2.ps) = 1 /\ d.ps[1][1] = d2.ps[1][1]
                                        /\ DataEqUpToSets(T.vars[i], d.ps[1][2], d2.ps[1][2])
                    [] T.lay = "adj" -> d.k = "map" /\ d2.k = "map" /\ Len(d.ps) = 2 /\ Len(d2.ps) = 2 /\ d.ps[1] = d2.ps[1]
                                        /\ d.ps[2][1] = d2.ps[2][1] /\ DataEqUpToSets(T.vars[i], d.ps[2][2], d2.ps[2][2]))
         [] T.k = "cls" ->
              LET outs == SelectSeq(T.fs, LAMBDA f : f.ex = "F") IN
              IF T.outf = "struct"
              THEN d.k = "map" /\ d2.k = "map" /\ Len(d.ps) = Len(d2.ps) /\ Len(d.ps) = Len(outs)
                   /\ \A i \in DOMAIN d.ps : d.ps[i][1] = d2.ps[i][1] /\ DataEqUpToSets(outs[i].t, d.ps[i][2], d2.ps[i][2])
              ELSE d.k = "seq" /\ d2.k = "seq" /\ Len(d.xs) = Len(d2.xs) /\ Len(d.xs) = Len(outs)
                   /\ \A i \in DOMAIN d.xs : DataEqUpToSets(outs[i].t, d.xs[i], d2.xs[i])
         [] OTHER -> FALSE
=============================================================================
