SPECIFICATION Spec
CONSTANTS
  StrFacts <- LoadedFacts
  MaxDepth = 0
  Focus = "unionq"
  OuterWrap = "few"
INVARIANT NeverJudged
CHECK_DEADLOCK FALSE
