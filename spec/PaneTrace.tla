----------------------------- MODULE PaneTrace -----------------------------
(***************************************************************************)
(* Trace validation of executions recorded from the real pane code.        *)
(* The harness writes one JSON object per public call (ndjson): the        *)
(* abstract arguments and the projected outcome.  TLC steps through the    *)
(* file; for each event it evaluates the clauses of the required           *)
(* semantics (PaneSem, PaneErrors) and collects <<event id, clause>> for    *)
(* every clause that fails.  The verdict is total: a disallowed event does *)
(* not block the trace, so everything after it is still examined.          *)
(*                                                                         *)
(* Events (field op):                                                       *)
(*  from_data  ty val out rerun     out = [k|->"ok", x] | [k|->"reject"] |  *)
(*                                        [k|->"exc", c |-> class name]     *)
(*  build      ty out doc           out.k in ok / exc;  doc = "T" if the    *)
(*                                  type is a documented (supported) one    *)
(*  passes     ty val fast diag conv                                        *)
(*  snapshot   api same                                                     *)
(*  roundtrip  ty val x d x2 d2     each [k|->"ok", ..] or reject/exc       *)
(*  fixpoint   ty x out                                                     *)
(***************************************************************************)
EXTENDS PaneClasses, Json, IOUtils, TLC

LoadedFacts == JsonDeserialize(IOEnv.PANE_FACTS)
Events      == ndJsonDeserialize(IOEnv.PANE_TRACE)

VARIABLES l, bad, seen      \* seen: identities of default-factory products observed so far (C14)
tvars == <<l, bad, seen>>

-----------------------------------------------------------------------------
-----------------------------------------------------------------------------
(* clauses per event family; each returns the set of names of failed clauses *)
(* Cls.from_data(d) is from_data(d, Cls), x.into_data() is into_data(x, type(x)), Cls.from_obj(x) is      *)
(* convert(x, Cls): where the harness recorded the outcome of the method spelling (field f), it must be  *)
(* the outcome of the function spelling                                                                    *)
MethodVariant(e, f, main) == IF f \in DOMAIN e /\ e[f] # main THEN {"method-variant-differs"} ELSE {}
FromDataFails(e) ==
  LET r == Verdict(e.ty, e.val) IN
  (IF e.out.k = "reject" THEN (IF r = "A" THEN {"must-accept"} ELSE {})
   ELSE IF e.out.k = "ok"
        THEN (IF r = "R" THEN {"must-reject"}
              ELSE IF r = "A" /\ Dec(e.out.x) # Img(e.ty, e.val) THEN {"image"} ELSE {})
        ELSE {"foreign-exception"})
  \cup (IF e.rerun = "F" THEN {"nondeterministic"} ELSE {})
  \cup MethodVariant(e, "alt", e.out)

(* C04/C12: building a converter for a documented type never fails; an unsupported or      *)
(* ill-formed one (doc = "F") fails with TypeError / UnsupportedAnnotation, and where the   *)
(* statement demands refusal (must = "fail": duplicate tag values) it does fail.            *)
BuildFails(e) ==
  IF e.out.k = "ok" THEN (IF e.must = "fail" THEN {"build-must-fail"} ELSE {})
  ELSE IF e.doc = "T" THEN {"build-fails-documented"}
  ELSE IF e.out.c \in {"TypeError", "UnsupportedAnnotation"} THEN {} ELSE {"build-exception-class"}

(* C12: an unknown, absent or ill-kinded tag is a ConvertError that names the tag *)
TagMsgFails(e) ==
  LET T == e.ty  v == e.val IN
  IF T.k # "tagged" \/ v.k # "map" \/ e.out.k # "reject" THEN {}
  ELSE LET te == TagExtract(T, v) IN
       IF te.ok /\ TagVariant(T, te.tag) # 0 THEN {}
       ELSE IF e.msg.tag = "T" \/ (T.lay = "adj" /\ e.msg.tk = "T") \/ (T.lay = "ext" /\ e.msg.tags = "T")
            THEN {} ELSE {"tag-not-named"}

(* C03: the quick attempt fails iff the diagnostic pass yields a tree *)
PassesFails(e) ==
  (IF (e.fast = "interrupt") # (e.diag = "tree") /\ e.fast \in {"ok", "interrupt"} /\ e.diag \in {"tree", "none"}
   THEN {"passes-disagree"} ELSE {})
  \cup (IF e.conv = "RuntimeError" THEN {"internal-runtime-error"} ELSE {})
  \cup (IF e.conv = "ConvertError" /\ e.tree = "F" THEN {"converterror-without-tree"} ELSE {})
  \cup (IF e.fast = "ok" /\ e.diag = "tree" THEN {"accepted-with-tree"} ELSE {})
  \cup (IF e.fast \notin {"ok", "interrupt"} \/ e.diag \notin {"tree", "none"} THEN {"pass-raised"} ELSE {})

SnapshotFails(e) == IF e.same = "T" THEN {} ELSE {"input-mutated"}

(* An untagged union cannot round-trip a value whose serialised form an EARLIER member also accepts *)
(* (Union[str, Fraction]: 5 -> Fraction(5) -> "5" -> "5"): inherent to left-most-wins, reported under *)
(* its own clause name so that it is told apart from any other failure to re-parse.                 *)
UnionShadow(T, v, d) ==
  /\ T.k = "union"
  /\ LET m == UnionPick(T.alts, v, 1)[1] IN
     m > 1 /\ \E j \in 1..(m - 1) : Verdict(T.alts[j], d) # "R"

(* C05: x obtained by conversion; d = into_data(x); x2 = from_data(d); d2 = into_data(x2) *)
RoundTripCore(e) ==
  IF Verdict(e.ty, e.val) # "A" \/ e.x.k # "ok" THEN {}
  ELSE IF Dec(e.x.x) # Img(e.ty, e.val) THEN {}   \* a wrong image is C01's to report
  ELSE IF ~OutEnabled(e.ty) \/ ~StdVal(Dec(e.x.x)) THEN {}   \* outside the property's precondition
  ELSE IF e.d.k # "ok" THEN {"serialise-failed"}
  ELSE LET x == Dec(e.x.x) d == e.d.x IN
       (IF ~IsData(d) THEN {"not-interchange"} ELSE {})
       \cup (IF ~SerOK(e.ty, x, d) THEN {"serialised-form"} ELSE {})
       \cup (IF e.x2.k # "ok" THEN {"reparse-failed"}
             ELSE IF StripX(Dec(e.x2.x), ExSet(e.ty)) # StripX(x, ExSet(e.ty))
                  THEN (IF UnionShadow(e.ty, e.val, d) THEN {"reparse-shadowed-by-earlier-union-member"} ELSE {"reparse-differs"})
             ELSE IF e.d2.k # "ok" THEN {"reserialise-failed"}
             ELSE IF ~DataEqUpToSets(e.ty, d, e.d2.x) THEN {"reserialise-differs"} ELSE {})

RoundTripFails(e) == MethodVariant(e, "dm", e.d) \cup RoundTripCore(e)

(* C06: typed values are fixed points of convert.  Only judged when x is the value the      *)
(* semantics says from_data(v, T) yields (otherwise C01 reports, not C06).  Equality is     *)
(* Python's ==, which does not look at the set-field record of dataclass instances.         *)
FixOne(o, x, name, ES, shadow) ==
  IF o.k \in {"skip", "unconverted"} THEN {}
  ELSE IF o.k # "ok" THEN {name \o "-refused"}
  ELSE IF StripX(Dec(o.x), ES) # StripX(x, ES)
       THEN (IF shadow THEN {name \o "-shadowed-by-earlier-union-member"} ELSE {name \o "-differs"}) ELSE {}
FixpointCore(e) ==
  IF e.have = "F" \/ Verdict(e.ty, e.val) # "A" THEN {}
  ELSE LET x == Dec(e.x) IN
       IF x # Img(e.ty, e.val) \/ ~OutEnabled(e.ty) \/ ~ReadsOwnForm(e.ty) \/ ~StdVal(x) THEN {}
       ELSE LET ES == ExSet(e.ty)
                \* convert = parse(serialise-by-own-type): an earlier union member that reads that serialised form wins
                sh == e.ty.k = "union" /\ e.ser.k = "ok" /\ UnionShadow(e.ty, e.val, e.ser.x) IN
            FixOne(e.out, x, "fixpoint", ES, sh) \cup FixOne(e.nat, x, "native", ES, sh) \cup FixOne(e.twice, x, "twice", ES, sh)

FixpointFails(e) == MethodVariant(e, "obj", e.out) \cup FixpointCore(e)

(* C11: serialising a union value uses a member that accepts it *)
UnionSerFails(e) ==
  IF e.have = "F" \/ Verdict(e.ty, e.val) # "A" THEN {}
  ELSE LET x == Dec(e.x) IN
       IF x # Img(e.ty, e.val) THEN {}
       ELSE IF e.d.k # "ok" THEN {"union-serialise-failed"}
       ELSE IF ~\E i \in DOMAIN e.ty.alts : SerOK(e.ty.alts[i], x, e.d.x) THEN {"union-serialised-by-no-member"}
       ELSE {}

Fails(e) ==
  CASE e.op = "from_data" -> FromDataFails(e)
    [] e.op = "construct" -> ConstructFails(e, seen)
    [] e.op = "created"   -> FromDataFails(e) \cup CreatedFails(e, seen)
    [] e.op = "unionser"  -> UnionSerFails(e)
    [] e.op = "build"     -> BuildFails(e)
    [] e.op = "tagmsg"    -> TagMsgFails(e)
    [] e.op = "passes"    -> PassesFails(e)
    [] e.op = "snapshot"  -> SnapshotFails(e)
    [] e.op = "roundtrip" -> RoundTripFails(e)
    [] e.op = "fixpoint"  -> FixpointFails(e)
    [] e.op = "tree"      -> TreeFails(e)
    [] e.op = "render"    -> RenderFails(e)
    [] e.op = "dispatch"  -> DispatchFails(e)
    [] OTHER -> {"unknown-event"}

-----------------------------------------------------------------------------
TraceInit == l = 1 /\ bad = {} /\ seen = {}
TraceNext == /\ l <= Len(Events)
             /\ l' = l + 1
             /\ bad' = bad \cup {<<Events[l].id, c>> : c \in Fails(Events[l])}
             /\ seen' = IF Events[l].op \in {"construct", "created"} THEN seen \cup Range(Events[l].ids) ELSE seen
TraceSpec == TraceInit /\ [][TraceNext]_tvars

(* printed once, in the final state *)
Report == (l = Len(Events) + 1) => PrintT(<<"BAD", bad>>)
TraceAccepted == TLCGet("stats").diameter - 1 = Len(Events)
=============================================================================
