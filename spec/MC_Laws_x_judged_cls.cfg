SPECIFICATION Spec
CONSTANTS
  StrFacts <- LoadedFacts
  MaxDepth = 0
  Focus = "cls"
  OuterWrap = "few"
INVARIANT NeverJudged
CHECK_DEADLOCK FALSE
