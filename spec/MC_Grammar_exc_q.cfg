SPECIFICATION Spec
CONSTANTS
  StrFacts <- LoadedFacts
  MaxDepth = 1
  Focus = "exc"
  OuterWrap = "few"
INVARIANT VerdictTotal
INVARIANT ImgDefined
INVARIANT UnionLaw
CHECK_DEADLOCK FALSE
