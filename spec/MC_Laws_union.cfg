SPECIFICATION Spec
CONSTANTS
  StrFacts <- LoadedFacts
  MaxDepth = 0
  Focus = "unionq"
  OuterWrap = "few"
INVARIANT VerdictTotal
INVARIANT ImgDefined
INVARIANT UnionLaw
INVARIANT SerConsistent
INVARIANT RoundTripLaw
CHECK_DEADLOCK FALSE
