SPECIFICATION Spec
CONSTANTS
  StrFacts <- LoadedFacts
  MaxLevel = 3
  Rich = FALSE
INVARIANT KwBehind
INVARIANT NamesUnique
INVARIANT SelfSubscription
INVARIANT InheritedKept
INVARIANT ParamsOnce
CHECK_DEADLOCK FALSE
