SPECIFICATION Spec
CONSTANTS
  StrFacts <- LoadedFacts
  MaxLevel = 3
  Rich = FALSE
INVARIANT KwBehind
INVARIANT NamesUnique
INVARIANT SelfSubscription
INVARIANT InheritedKept
INVARIANT ParamsOnce
INVARIANT DiamondByMro
INVARIANT MroSound
CHECK_DEADLOCK FALSE
