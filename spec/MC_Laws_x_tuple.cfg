SPECIFICATION Spec
CONSTANTS
  StrFacts <- LoadedFacts
  MaxDepth = 0
  Focus = "cls"
  OuterWrap = "few"
INVARIANT NoTupleGap
CHECK_DEADLOCK FALSE
