---------------------------- MODULE MC_Grammar ----------------------------
(* Exhaustive exploration of the grammar state graph; the string facts are  *)
(* read from the file the harness computed with the standard library.       *)
EXTENDS PaneGrammar, Json, IOUtils
LoadedFacts == JsonDeserialize(IOEnv.PANE_FACTS)
=============================================================================
