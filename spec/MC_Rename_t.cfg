SPECIFICATION RSpec
CONSTANTS
  Alphabet = {1, 2, 3}
  WordLens = {2, 3, 4}
  MaxWords = 2
INVARIANT ImplCanonical
INVARIANT ImplIdempotent
INVARIANT ImplBackToSnake
INVARIANT ImplNeverRefusesValid
INVARIANT SpecSplitsBack
INVARIANT SpecInjective
CHECK_DEADLOCK FALSE
