---------------------------- MODULE PaneHandlers ----------------------------
(***************************************************************************)
(* C18: which custom converter is used for a type occurring in a field.    *)
(*                                                                         *)
(* Sources: F the field's own converter; G handlers passed to the call;    *)
(* C those of the nearest enclosing dataclass (its own, or - inh = "T" -   *)
(* inherited from its base class; inh = "X": the base has them and the     *)
(* class itself passes an empty custom=(), which overrides them); E those of a dataclass further out;     *)
(* P the type's own converter protocol; R a registered global handler;     *)
(* B the built-in converters.  A configuration says which sources are      *)
(* present, which of them answer NotImplemented (defer), in which form     *)
(* the handlers are given, what kind of type is being resolved, where it   *)
(* sits (shape) and in which direction the conversion runs.                *)
(*                                                                         *)
(* Resolve(cfg) is the source that must be used:                           *)
(*   F > G > C > E > (P | scalar built-in) > R > structural built-in,      *)
(* a mapping-form handler matching only the exact unparameterised type,    *)
(* a deferring handler passing on to the next.                             *)
(***************************************************************************)
EXTENDS Integers, Sequences, FiniteSets, TLC

Sources == {"F", "G", "C", "E", "R"}
Targets == {"scalar", "proto", "struct", "plain", "param", "regparam"}   \* int / HasConverter class / list subclass / class without converter / List[int] /
                                                                          \* RegBox[int]: a third-party container served by the registered handler, which builds the
                                                                          \* converter of its argument from the handlers it is given; what is resolved is that argument
Shapes  == {"field", "list", "opt", "dict", "tuple"}
Forms   == {"callable", "seq", "map"}

VARIABLES cfg
Configs ==
  { c \in [present : SUBSET Sources, defer : SUBSET {"G", "C", "E", "R"}, form : Forms, target : Targets,
           shape : Shapes, dir : {"from", "into"}, inh : {"T", "F", "X"}] :
      /\ c.defer \subseteq c.present
      /\ ("F" \in c.present => c.shape = "field")
      /\ (c.inh \in {"T", "X"} => "C" \in c.present)
      /\ (c.form = "map" => c.defer \subseteq {"R"})      \* a mapping cannot answer NotImplemented
      /\ ~(c.target = "param" /\ c.shape = "list") }      \* (List[List[int]]: the handlers keyed on list would answer for the outer list)

(* does the handler of source s answer for the type being resolved *)
Answers(c, s) ==
  /\ s \in c.present /\ s \notin c.defer
  /\ ~(s = "C" /\ c.inh = "X")         \* the subclass switched its base's handlers off with an explicit empty custom=()
  /\ (s \in {"G", "C", "E"} /\ c.form = "map" /\ c.target = "param") => FALSE   \* {list: conv} is not asked for List[int]
Order == <<"F", "G", "C", "E">>
FirstLocal(c) == LET S == {i \in DOMAIN Order : Answers(c, Order[i])} IN
                 IF S = {} THEN "" ELSE Order[CHOOSE i \in S : \A j \in S : i <= j]
Resolve(c) ==
  IF c.target = "regparam" /\ FirstLocal(c) # "F"
  THEN (IF ~Answers(c, "R") THEN "none"                  \* nobody converts the container
        ELSE IF FirstLocal(c) # "" THEN FirstLocal(c)     \* custom handlers reach inside the registered type
        ELSE "B")
  ELSE IF FirstLocal(c) # "" THEN FirstLocal(c)
  ELSE CASE c.target = "scalar" -> "B"                                   \* scalar built-ins come before registered handlers
         [] c.target = "proto"  -> "P"
         [] c.target \in {"struct", "param"} -> IF Answers(c, "R") THEN "R" ELSE "B"
         [] c.target = "plain"  -> IF Answers(c, "R") THEN "R" ELSE "none"   \* no converter at all: TypeError when built
         [] c.target = "regparam" -> "F"

HInit == cfg \in Configs
HNext == FALSE /\ UNCHANGED cfg
HSpec == HInit /\ [][HNext]_cfg

(* laws: the winner is a source that answers (or the fallback); adding a higher source changes the winner to it *)
WinnerAnswers == Resolve(cfg) \in {"B", "P", "none"} \/ Answers(cfg, Resolve(cfg))
Monotone == \A i \in DOMAIN Order :
              LET s == Order[i]
                  c2 == [cfg EXCEPT !.present = @ \cup {s}, !.defer = @ \ {s}] IN
              (c2 \in Configs /\ Answers(c2, s) /\ (\A j \in 1..(i - 1) : ~Answers(c2, Order[j]))
                 /\ (c2.target = "regparam" => s = "F" \/ Answers(c2, "R"))) => Resolve(c2) = s
=============================================================================
