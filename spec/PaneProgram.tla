----------------------------- MODULE PaneProgram -----------------------------
(***************************************************************************)
(* C17: class tables built from hierarchy PROGRAMS.                        *)
(*                                                                         *)
(* A program is a sequence of class definitions; definition i is           *)
(*   [name, base  |-> index of its pane base in the program, 0 = PaneBase, *)
(*    bargs |-> <<types>> the subscription of the base (<<>> = none),      *)
(*    gen   |-> <<names>> of the type variables it declares (Generic[..]), *)
(*    own   |-> << [n, t, d, kw] >> fields declared in its body, in order, *)
(*    marker|-> k: own fields after position k follow a KW_ONLY marker     *)
(*              (k = Len(own): no marker),                                 *)
(*    opts  |-> [kw_only, extra, frozen : "T"|"F"|"unset",                 *)
(*               inf : <<layouts>> | <<"unset">>, outf : layout | "unset"]]*)
(* Field types may contain type variables [k |-> "tv", name |-> "T"].      *)
(*                                                                         *)
(* EffCls(prog, i, args) is the class descriptor (as in PaneSem) that the  *)
(* rules of docs/using/dataclasses.md give class i subscripted with args:  *)
(* fields of the bases in MRO order, a redeclared field overriding in      *)
(* place, own fields appended, keyword-only fields moved behind; type      *)
(* arguments substituted through any depth; options inherited unless set.  *)
(***************************************************************************)
EXTENDS PaneSem

TV(n) == [k |-> "tv", name |-> n]
Unset == "unset"

-----------------------------------------------------------------------------
(* substitution of type variables in a type expression; env = << <<name, type>> .. >> *)
Lookup(env, n) == LET S == {i \in DOMAIN env : env[i][1] = n} IN
                  IF S = {} THEN TV(n) ELSE env[CHOOSE i \in S : TRUE][2]
RECURSIVE Subst(_, _)
Subst(T, env) ==
  CASE T.k = "tv" -> Lookup(env, T.name)
    [] T.k \in SeqKinds -> [T EXCEPT !.e = Subst(T.e, env)]
    [] T.k = "tuple" -> [T EXCEPT !.es = [i \in DOMAIN T.es |-> Subst(T.es[i], env)]]
    [] T.k \in {"dict", "defaultdict", "ordereddict"} -> [T EXCEPT !.kt = Subst(T.kt, env), !.vt = Subst(T.vt, env)]
    [] T.k = "union" -> [T EXCEPT !.alts = [i \in DOMAIN T.alts |-> Subst(T.alts[i], env)]]
    [] T.k = "ann" -> [T EXCEPT !.t = Subst(T.t, env)]
    [] OTHER -> T
(* type variables occurring in a type, in order of first appearance *)
RECURSIVE VarsOf(_)
AppendNew(s, x) == IF \E i \in DOMAIN s : s[i] = x THEN s ELSE Append(s, x)
RECURSIVE MergeVars(_, _)
MergeVars(a, b) == IF b = <<>> THEN a ELSE MergeVars(AppendNew(a, Head(b)), Tail(b))
RECURSIVE VarsOfSeq(_)
VarsOfSeq(ts) == IF ts = <<>> THEN <<>> ELSE MergeVars(VarsOf(Head(ts)), VarsOfSeq(Tail(ts)))
VarsOf(T) ==
  CASE T.k = "tv" -> <<T.name>>
    [] T.k \in SeqKinds -> VarsOf(T.e)
    [] T.k = "tuple" -> VarsOfSeq(T.es)
    [] T.k \in {"dict", "defaultdict", "ordereddict"} -> MergeVars(VarsOf(T.kt), VarsOf(T.vt))
    [] T.k = "union" -> VarsOfSeq(T.alts)
    [] T.k = "ann" -> VarsOf(T.t)
    [] OTHER -> <<>>
(* unions as typing normalises them: nested unions flattened, duplicates dropped (first kept), a single *)
(* member standing for itself                                                                          *)
RECURSIVE NormT(_), FlatU(_)
FlatU(alts) == IF alts = <<>> THEN <<>>
               ELSE (IF Head(alts).k = "union" THEN FlatU(Head(alts).alts) ELSE <<Head(alts)>>) \o FlatU(Tail(alts))
DedupSeq(s) == LET keep == SelectSeq([i \in DOMAIN s |-> i], LAMBDA i : \A j \in 1..(i - 1) : s[j] # s[i]) IN
               [i \in DOMAIN keep |-> s[keep[i]]]
NormT(T) ==
  CASE T.k \in SeqKinds -> [T EXCEPT !.e = NormT(T.e)]
    [] T.k = "tuple" -> [T EXCEPT !.es = [i \in DOMAIN T.es |-> NormT(T.es[i])]]
    [] T.k \in {"dict", "defaultdict", "ordereddict"} -> [T EXCEPT !.kt = NormT(T.kt), !.vt = NormT(T.vt)]
    [] T.k = "union" -> LET a == DedupSeq(FlatU([i \in DOMAIN T.alts |-> NormT(T.alts[i])])) IN
                        IF Len(a) = 1 THEN a[1] ELSE [T EXCEPT !.alts = a]
    [] T.k = "ann" -> [T EXCEPT !.t = NormT(T.t)]
    [] OTHER -> T

(* an unbound variable converts as Any *)
RECURSIVE Ground(_)
Ground(T) ==
  CASE T.k = "tv" -> [k |-> "tvar", var |-> "free", ts |-> <<>>]
    [] T.k \in SeqKinds -> [T EXCEPT !.e = Ground(T.e)]
    [] T.k = "tuple" -> [T EXCEPT !.es = [i \in DOMAIN T.es |-> Ground(T.es[i])]]
    [] T.k \in {"dict", "defaultdict", "ordereddict"} -> [T EXCEPT !.kt = Ground(T.kt), !.vt = Ground(T.vt)]
    [] T.k = "union" -> [T EXCEPT !.alts = [i \in DOMAIN T.alts |-> Ground(T.alts[i])]]
    [] T.k = "ann" -> [T EXCEPT !.t = Ground(T.t)]
    [] OTHER -> T

-----------------------------------------------------------------------------
RECURSIVE Params(_, _), EffOpts(_, _)

(* type parameters of class i: the variables free in its base subscription, then those it declares, each once *)
Params(prog, i) ==
  LET d == prog[i] IN MergeVars(VarsOfSeq(d.bargs), d.gen)
BaseEnv(prog, i) ==      \* binding of the base's parameters by this class' base subscription
  LET d == prog[i] IN
  IF d.base = 0 \/ d.bargs = <<>> THEN <<>>
  ELSE LET ps == Params(prog, d.base) IN [j \in 1..Len(d.bargs) |-> <<ps[j], d.bargs[j]>>]

Pick3(own, base) == IF own = Unset THEN base ELSE own
Defaults == [kw_only |-> "F", extra |-> "F", frozen |-> "T", inf |-> <<"struct">>, outf |-> "struct"]
EffOpts(prog, i) ==
  LET d == prog[i]
      b == IF d.base = 0 THEN Defaults ELSE EffOpts(prog, d.base) IN
  [kw_only |-> Pick3(d.opts.kw_only, b.kw_only), extra |-> Pick3(d.opts.extra, b.extra),
   frozen |-> Pick3(d.opts.frozen, b.frozen),
   inf |-> IF d.opts.inf = <<Unset>> THEN b.inf ELSE d.opts.inf,
   outf |-> Pick3(d.opts.outf, b.outf)]

(* own field specs with their keyword-only-ness decided where they are declared *)
OwnSpecs(prog, i) ==
  LET d == prog[i] IN
  [j \in DOMAIN d.own |->
     [d.own[j] EXCEPT !.kw = IF d.own[j].kw = "T" \/ j > d.marker \/ EffOpts(prog, i).kw_only = "T" THEN "T" ELSE "F"]]

(* merge: a redeclared name keeps its position and takes the new spec, a new name is appended.      *)
(* As with standard-library dataclasses, a redeclaration that gives no default of its own finds the *)
(* base's default value through class-attribute inheritance and keeps it.                           *)
RECURSIVE MergeSpecs(_, _)
MergeSpecs(acc, new) ==
  IF new = <<>> THEN acc
  ELSE LET f == Head(new)
           S == {j \in DOMAIN acc : acc[j].n = f.n} IN
       MergeSpecs(IF S = {} THEN Append(acc, f)
                  ELSE LET j == CHOOSE j \in S : TRUE IN
                       [acc EXCEPT ![j] = IF f.d.k = "nodef" /\ acc[j].d.k = "val" THEN [f EXCEPT !.d = acc[j].d] ELSE f],
                  Tail(new))

(* plain merge of the specs of two base classes (second base first, as the reversed MRO has it): a name of    *)
(* the first base replaces the spec in place, nothing is carried over from the replaced one                   *)
RECURSIVE MergeBases(_, _)
MergeBases(acc, new) ==
  IF new = <<>> THEN acc
  ELSE LET f == Head(new)  S == {j \in DOMAIN acc : acc[j].n = f.n} IN
       MergeBases(IF S = {} THEN Append(acc, f) ELSE [acc EXCEPT ![CHOOSE j \in S : TRUE] = f], Tail(new))
Mix(d) == IF "mix" \in DOMAIN d THEN d.mix ELSE 0      \* index of a second (non-generic) pane base, 0 = none

(* the linearisation of class i for the shapes generated here: single chains, and two pane bases whose own    *)
(* linearisations share at most a common tail (unrelated bases, or a diamond over a shared pane ancestor)     *)
RECURSIVE Mro(_, _)
Mro(prog, i) ==
  LET d == prog[i] IN
  IF d.base = 0 THEN <<i>>
  ELSE IF Mix(d) = 0 THEN <<i>> \o Mro(prog, d.base)
  ELSE LET a == Mro(prog, d.base)  b == Mro(prog, Mix(d))
           common == Range(a) \cap Range(b) IN
       <<i>> \o SelectSeq(a, LAMBDA x : x \notin common) \o SelectSeq(b, LAMBDA x : x \notin common)
             \o SelectSeq(a, LAMBDA x : x \in common)
RevSeq(s) == [k \in DOMAIN s |-> s[Len(s) + 1 - k]]

(* specs collected along the MRO, before the keyword-only reordering.  With one pane base the specs of the    *)
(* base are taken over (and substituted); with two, the classes of the linearisation are visited from the     *)
(* far end and each contributes the specs of the names IT declares (as they were fixed when it was defined)   *)
RECURSIVE RawSpecs(_, _), Baked(_, _), FoldBases(_, _, _)
RawSpecs(prog, i) ==
  LET d == prog[i]
      frombase == IF d.base = 0 THEN <<>>
                  ELSE LET bs == RawSpecs(prog, d.base) env == BaseEnv(prog, i) IN
                       [j \in DOMAIN bs |-> [bs[j] EXCEPT !.t = Subst(bs[j].t, env)]]
      inherited == IF Mix(d) = 0 THEN frombase ELSE FoldBases(prog, <<>>, RevSeq(Tail(Mro(prog, i))))
  IN MergeSpecs(inherited, OwnSpecs(prog, i))
Baked(prog, j) ==
  LET names == {prog[j].own[k].n : k \in DOMAIN prog[j].own} IN
  SelectSeq(RawSpecs(prog, j), LAMBDA f : f.n \in names)
FoldBases(prog, acc, js) ==
  IF js = <<>> THEN acc ELSE FoldBases(prog, MergeBases(acc, Baked(prog, Head(js))), Tail(js))

Reorder(specs) == SelectSeq(specs, LAMBDA f : f.kw = "F") \o SelectSeq(specs, LAMBDA f : f.kw = "T")

(* the effective fields of class i subscripted with args (<<>> = not subscripted) *)
EffSpecs(prog, i, args) ==
  LET ps == Params(prog, i)
      n == IF Len(args) < Len(ps) THEN Len(args) ELSE Len(ps)
      env == [j \in 1..n |-> <<ps[j], args[j]>>]
      raw == RawSpecs(prog, i) IN
  Reorder([j \in DOMAIN raw |-> [raw[j] EXCEPT !.t = Subst(raw[j].t, env)]])

(* definition-time errors of class i: "" (none) or the exception class *)
DefError(prog, i) ==
  LET fs == EffSpecs(prog, i, <<>>)
      pos == SelectSeq(fs, LAMBDA f : f.kw = "F")
      o == EffOpts(prog, i) IN
  IF \E a, b \in DOMAIN pos : a < b /\ pos[a].d.k # "nodef" /\ pos[b].d.k = "nodef" THEN "TypeError"
  ELSE IF "tuple" \in Range(o.inf) /\ \E j \in DOMAIN fs : fs[j].kw = "T" /\ fs[j].d.k = "nodef" THEN "TypeError"
  ELSE ""
RECURSIVE ProgOK(_, _)
ProgOK(prog, i) == IF DefError(prog, i) # "" THEN FALSE
                   ELSE (IF prog[i].base = 0 THEN TRUE ELSE ProgOK(prog, prog[i].base))
                        /\ (IF Mix(prog[i]) = 0 THEN TRUE ELSE ProgOK(prog, Mix(prog[i])))

(* the PaneSem descriptor *)
EffCls(prog, i, args) ==
  LET fs == EffSpecs(prog, i, args)  o == EffOpts(prog, i) IN
  [k |-> "cls", name |-> prog[i].name,
   fs |-> [j \in DOMAIN fs |-> [n |-> fs[j].n, t |-> Ground(fs[j].t), d |-> fs[j].d, kw |-> fs[j].kw,
                                 ins |-> <<fs[j].n>>, out |-> fs[j].n, ex |-> "F", init |-> "T"]],
   inf |-> o.inf, outf |-> o.outf, extra |-> o.extra, hook |-> [k |-> "nohook"]]

(* what inspect.signature shows: name, keyword-only?, has a default?, substituted annotation *)
Signature(prog, i, args) ==
  LET fs == EffSpecs(prog, i, args) IN
  [j \in DOMAIN fs |-> [n |-> fs[j].n, kw |-> fs[j].kw, hasdef |-> IF fs[j].d.k = "nodef" THEN "F" ELSE "T", t |-> fs[j].t]]
=============================================================================
