-------------------------- MODULE PaneProgramTrace --------------------------
(* Trace validation for C17: class-hierarchy programs defined for real; the definition        *)
(* outcome, the constructor signature / field order / frozenness and conversions through the  *)
(* resulting classes are judged against the class rules of PaneProgram.                       *)
EXTENDS PaneProgram, Json, IOUtils, TLC

LoadedFacts == JsonDeserialize(IOEnv.PANE_FACTS)
Events == ndJsonDeserialize(IOEnv.PANE_TRACE)
VARIABLES l, bad
tvars == <<l, bad>>

DefFails(e) ==
  LET want == DefError(e.prog, e.i) IN
  IF want = "" THEN (IF e.out = "ok" THEN {} ELSE {"definition-refused"})
  ELSE IF e.out = want THEN {} ELSE IF e.out = "ok" THEN {"definition-error-not-raised"} ELSE {"definition-error-class"}

SigFails(e) ==
  IF e.args # <<>> /\ Len(e.args) # Len(Params(e.prog, e.i)) THEN {"type-parameters"} ELSE
  LET want == Signature(e.prog, e.i, e.args)
      o == EffOpts(e.prog, e.i) IN
  (IF [j \in DOMAIN e.sig |-> e.sig[j].n] = [j \in DOMAIN want |-> want[j].n] THEN {} ELSE {"field-order"})
  \cup (IF Len(e.sig) = Len(want) /\ \A j \in DOMAIN want : e.sig[j].n = want[j].n => e.sig[j].kw = want[j].kw THEN {} ELSE {"keyword-only-placement"})
  \cup (IF Len(e.sig) = Len(want) /\ \A j \in DOMAIN want : e.sig[j].n = want[j].n => e.sig[j].hasdef = want[j].hasdef THEN {} ELSE {"signature-defaults"})
  \cup (IF Len(e.sig) = Len(want) /\ \A j \in DOMAIN want : e.sig[j].n = want[j].n => NormT(e.sig[j].t) = NormT(want[j].t) THEN {} ELSE {"substituted-annotation"})
  \cup (IF e.reprorder = [j \in DOMAIN want |-> want[j].n] THEN {} ELSE {"repr-order"})
  \cup (IF e.frozen = o.frozen THEN {} ELSE {"frozen-not-inherited"})
  \cup (IF e.params = (IF e.args = <<>> THEN Params(e.prog, e.i) ELSE VarsOfSeq(e.args)) THEN {} ELSE {"type-parameters"})

FromFails(e) ==
  IF e.args # <<>> /\ Len(e.args) # Len(Params(e.prog, e.i)) THEN {} ELSE
  LET T == EffCls(e.prog, e.i, e.args)
      r == Verdict(T, e.val) IN
  IF e.out.k = "reject" THEN (IF r = "A" THEN {"must-accept"} ELSE {})
  ELSE IF e.out.k = "ok" THEN (IF r = "R" THEN {"must-reject"}
                               ELSE IF r = "A" /\ Dec(e.out.x) # Img(T, e.val) THEN {"image"} ELSE {})
  ELSE {"foreign-exception"}

SubscriptFails(e) ==     \* Cls[args] with the right number of arguments must succeed
  IF Len(e.args) = Len(Params(e.prog, e.i)) THEN (IF e.out = "ok" THEN {} ELSE {"subscription-refused"}) ELSE {}

Fails(e) == CASE e.op = "progdef" -> DefFails(e)
              [] e.op = "progsig" -> SigFails(e)
              [] e.op = "prog_from_data" -> FromFails(e)
              [] e.op = "subscript" -> SubscriptFails(e)
              [] OTHER -> {"unknown-event"}
TraceInit == l = 1 /\ bad = {}
TraceNext == /\ l <= Len(Events) /\ l' = l + 1
             /\ bad' = bad \cup {<<Events[l].id, c>> : c \in Fails(Events[l])}
TraceSpec == TraceInit /\ [][TraceNext]_tvars
Report == (l = Len(Events) + 1) => PrintT(<<"BAD", bad>>)
TraceAccepted == TLCGet("stats").diameter - 1 = Len(Events)
=============================================================================
