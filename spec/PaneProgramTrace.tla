-------------------------- MODULE PaneProgramTrace --------------------------
(* Trace validation for C17: class-hierarchy programs defined for real; the definition        *)
(* outcome, the constructor signature / field order / frozenness and conversions through the  *)
(* resulting classes are judged against the class rules of PaneProgram.                       *)
EXTENDS PaneProgram, Json, IOUtils, TLC

LoadedFacts == JsonDeserialize(IOEnv.PANE_FACTS)
Events == ndJsonDeserialize(IOEnv.PANE_TRACE)
VARIABLES l, bad
tvars == <<l, bad>>

DefFails(e) ==
  LET want == DefError(e.prog, e.i) IN
  IF want = "" THEN (IF e.out = "ok" THEN {} ELSE {"definition-refused"})
  ELSE IF e.out = want THEN {} ELSE IF e.out = "ok" THEN {"definition-error-not-raised"} ELSE {"definition-error-class"}

(* Substituting a type variable rebuilds the annotation.  Where the rebuilt type is a typing.Union one of    *)
(* whose members CONTAINS the variable (Union[int, List[T]], Optional[Annotated[T, c]]) the new object is     *)
(* made by typing's cached subscription, which compares arguments with == (Union[A, B] == Union[B, A]): the  *)
(* member order of a union passed as the argument can then be the one of an earlier, equal subscription.     *)
(* Failures on that path are named apart (known finding F36), so that everything else stays judged.          *)
RECURSIVE HasRebuiltUnion(_)
HasRebuiltUnion(T) ==
  CASE T.k = "union" -> \/ \E j \in DOMAIN T.alts : T.alts[j].k # "tv" /\ VarsOf(T.alts[j]) # <<>>
                        \/ \E j \in DOMAIN T.alts : HasRebuiltUnion(T.alts[j])
    [] T.k = "list" -> HasRebuiltUnion(T.e)
    [] T.k = "ann"  -> HasRebuiltUnion(T.t)
    [] OTHER -> FALSE
RECURSIVE HasUnion(_), ChainSubstitutesUnion(_, _)
HasUnion(T) == CASE T.k = "union" -> TRUE [] T.k = "list" -> HasUnion(T.e) [] T.k = "ann" -> HasUnion(T.t) [] OTHER -> FALSE
ChainSubstitutesUnion(prog, i) ==      \* a base of class i (at any level) is subscripted with a type that has a union in it
  IF i = 0 THEN FALSE
  ELSE (\E j \in DOMAIN prog[i].bargs : HasUnion(prog[i].bargs[j])) \/ ChainSubstitutesUnion(prog, prog[i].base)
(* some class of the chain declares a field whose type is rebuilt that way: a union member that contains a   *)
(* variable, or a union member that IS a variable while a base is subscripted with a wrapped type (List[V])  *)
RECURSIVE HasVarAlt(_), ChainRebuildsUnion(_, _, _), ChainWrapsArg(_, _)
HasVarAlt(T) == CASE T.k = "union" -> \E j \in DOMAIN T.alts : T.alts[j].k = "tv" \/ HasVarAlt(T.alts[j])
                  [] T.k = "list" -> HasVarAlt(T.e) [] T.k = "ann" -> HasVarAlt(T.t) [] OTHER -> FALSE
ChainWrapsArg(prog, i) ==
  IF i = 0 THEN FALSE
  ELSE (\E j \in DOMAIN prog[i].bargs : prog[i].bargs[j].k \in {"list", "ann"}) \/ ChainWrapsArg(prog, prog[i].base)
ChainRebuildsUnion(prog, i, top) ==
  IF i = 0 THEN FALSE
  ELSE \/ \E j \in DOMAIN prog[i].own : HasRebuiltUnion(prog[i].own[j].t)
       \/ \E j \in DOMAIN prog[i].own : HasVarAlt(prog[i].own[j].t) /\ ChainWrapsArg(prog, top)
       \/ ChainRebuildsUnion(prog, prog[i].base, top)
RECURSIVE ChainHasVarAlt(_, _)
ChainHasVarAlt(prog, i) == IF i = 0 THEN FALSE
                           ELSE (\E j \in DOMAIN prog[i].own : HasVarAlt(prog[i].own[j].t)) \/ ChainHasVarAlt(prog, prog[i].base)
ViaTypingUnion(e) ==
  /\ (\E j \in DOMAIN e.args : HasUnion(e.args[j])) \/ ChainSubstitutesUnion(e.prog, e.i)
  /\ \/ ChainRebuildsUnion(e.prog, e.i, e.i)
     \/ (\E j \in DOMAIN e.args : e.args[j].k \in {"list", "ann"}) /\ ChainHasVarAlt(e.prog, e.i)    \* Cls[List[Union[..]]] into Union[T, None]
Named(e, c) == IF ViaTypingUnion(e) THEN c \o "-via-rebuilt-typing-union" ELSE c

SigFails(e) ==
  IF e.args # <<>> /\ Len(e.args) # Len(Params(e.prog, e.i)) THEN {"type-parameters"} ELSE
  LET want == Signature(e.prog, e.i, e.args)
      o == EffOpts(e.prog, e.i) IN
  (IF [j \in DOMAIN e.sig |-> e.sig[j].n] = [j \in DOMAIN want |-> want[j].n] THEN {} ELSE {"field-order"})
  \cup (IF Len(e.sig) = Len(want) /\ \A j \in DOMAIN want : e.sig[j].n = want[j].n => e.sig[j].kw = want[j].kw THEN {} ELSE {"keyword-only-placement"})
  \cup (IF Len(e.sig) = Len(want) /\ \A j \in DOMAIN want : e.sig[j].n = want[j].n => e.sig[j].hasdef = want[j].hasdef THEN {} ELSE {"signature-defaults"})
  \cup (IF Len(e.sig) = Len(want) /\ \A j \in DOMAIN want : e.sig[j].n = want[j].n => NormT(e.sig[j].t) = NormT(want[j].t) THEN {} ELSE {Named(e, "substituted-annotation")})
  \cup (IF e.reprorder = [j \in DOMAIN want |-> want[j].n] THEN {} ELSE {"repr-order"})
  \cup (IF e.frozen = o.frozen THEN {} ELSE {"frozen-not-inherited"})
  \cup (IF e.params = (IF e.args = <<>> THEN Params(e.prog, e.i) ELSE VarsOfSeq(e.args)) THEN {} ELSE {"type-parameters"})

FromFails(e) ==
  IF e.args # <<>> /\ Len(e.args) # Len(Params(e.prog, e.i)) THEN {} ELSE
  LET T == EffCls(e.prog, e.i, e.args)
      r == Verdict(T, e.val) IN
  IF e.out.k = "reject" THEN (IF r = "A" THEN {Named(e, "must-accept")} ELSE {})
  ELSE IF e.out.k = "ok" THEN (IF r = "R" THEN {Named(e, "must-reject")}
                               ELSE IF r = "A" /\ Dec(e.out.x) # Img(T, e.val) THEN {Named(e, "image")} ELSE {})
  ELSE {"foreign-exception"}

SubscriptFails(e) ==     \* Cls[args] with the right number of arguments must succeed
  IF Len(e.args) = Len(Params(e.prog, e.i)) THEN (IF e.out = "ok" THEN {} ELSE {"subscription-refused"}) ELSE {}

Fails(e) == CASE e.op = "progdef" -> DefFails(e)
              [] e.op = "progsig" -> SigFails(e)
              [] e.op = "prog_from_data" -> FromFails(e)
              [] e.op = "subscript" -> SubscriptFails(e)
              [] OTHER -> {"unknown-event"}
TraceInit == l = 1 /\ bad = {}
TraceNext == /\ l <= Len(Events) /\ l' = l + 1
             /\ bad' = bad \cup {<<Events[l].id, c>> : c \in Fails(Events[l])}
TraceSpec == TraceInit /\ [][TraceNext]_tvars
Report == (l = Len(Events) + 1) => PrintT(<<"BAD", bad>>)
TraceAccepted == TLCGet("stats").diameter - 1 = Len(Events)
=============================================================================
