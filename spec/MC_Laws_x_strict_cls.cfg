SPECIFICATION Spec
CONSTANTS
  StrFacts <- LoadedFacts
  MaxDepth = 0
  Focus = "cls"
  OuterWrap = "few"
INVARIANT RoundTripLawStrict
CHECK_DEADLOCK FALSE
