SPECIFICATION CSpec
CONSTANTS
  Addr = {1, 2}
  Desc = {"ListStr", "DictStrFloat", "TupIntStr", "ListMy"}
  HS = {"h0", "h1"}
  Threads = {1, 2}
  PinKeyArgs = TRUE
  MaxReg = 1
  RegDesign = "clear"
  MaxLevel = 12
CONSTRAINT Bounded
INVARIANT Transparent
INVARIANT PinsLive
CHECK_DEADLOCK FALSE
INVARIANT CacheSound
