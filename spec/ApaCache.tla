------------------------------ MODULE ApaCache ------------------------------
(***************************************************************************)
(* C10 part A, unbounded histories: an inductive invariant of the repaired *)
(* cache design (the cache entry keeps the key's type alive), discharged   *)
(* by Apalache:                                                            *)
(*    CInit => IndInv                       (--init=CInit  --length=0)     *)
(*    IndInv /\ CNext => IndInv'            (--init=IndInit --length=1)    *)
(* and IndInv contains Transparent and CacheSound.  Same actions as        *)
(* PaneCache.tla (PinKeyArgs = TRUE), written here with Apalache type      *)
(* annotations and without the TLC-only level bound.                       *)
(***************************************************************************)
EXTENDS Integers, Sequences, FiniteSets

Addr == {1, 2, 3}
Desc == {"ListStr", "DictStrFloat", "TupIntStr"}
HS == {"h0", "h1"}
Threads == {1, 2}
Free == "free"

VARIABLES
  \* @type: Int -> Str;
  heap,
  \* @type: Set(Int);
  live,
  \* @type: Set(Int);
  pins,
  \* @type: <<Int, Str>> -> <<Str, Str>>;
  cache,
  \* @type: Int -> Str;
  pc,
  \* @type: Int -> {a: Int, h: Str, want: Str};
  req,
  \* @type: Int -> <<Str, Str>>;
  built,
  \* @type: Int -> <<Str, Str>>;
  ret

\* @type: <<Str, Str>>;
NoConv == <<"none", "none">>
\* @type: (Str, Str) => <<Str, Str>>;
Fresh(d, h) == <<d, h>>
\* @type: {a: Int, h: Str, want: Str};
NoReq == [a |-> 0, h |-> "none", want |-> "none"]

CInit == /\ heap = [a \in Addr |-> Free] /\ live = {} /\ pins = {}
         /\ cache = [k \in Addr \X HS |-> NoConv]
         /\ pc = [t \in Threads |-> "idle"] /\ req = [t \in Threads |-> NoReq]
         /\ built = [t \in Threads |-> NoConv] /\ ret = [t \in Threads |-> NoConv]

Alloc(a, d) == /\ heap[a] = Free
               /\ heap' = [heap EXCEPT ![a] = d] /\ live' = live \union {a}
               /\ UNCHANGED <<pins, cache, pc, req, built, ret>>
InUse(a) == \E t \in Threads : pc[t] /= "idle" /\ req[t].a = a
Drop(a) == /\ a \in live /\ ~InUse(a)
           /\ live' = live \ {a}
           /\ heap' = IF a \in pins THEN heap ELSE [heap EXCEPT ![a] = Free]
           /\ UNCHANGED <<pins, cache, pc, req, built, ret>>
Call(t, a, h) == /\ pc[t] = "idle" /\ a \in live
                 /\ req' = [req EXCEPT ![t] = [a |-> a, h |-> h, want |-> heap[a]]]
                 /\ pc' = [pc EXCEPT ![t] = "key"]
                 /\ UNCHANGED <<heap, live, pins, cache, built, ret>>
Probe(t) == /\ pc[t] = "key"
            /\ LET k == <<req[t].a, req[t].h>> IN
               IF cache[k] /= NoConv
               THEN ret' = [ret EXCEPT ![t] = cache[k]] /\ pc' = [pc EXCEPT ![t] = "done"]
               ELSE ret' = ret /\ pc' = [pc EXCEPT ![t] = "miss"]
            /\ UNCHANGED <<heap, live, pins, cache, req, built>>
Build(t) == /\ pc[t] = "miss"
            /\ built' = [built EXCEPT ![t] = Fresh(heap[req[t].a], req[t].h)]
            /\ pc' = [pc EXCEPT ![t] = "built"]
            /\ UNCHANGED <<heap, live, pins, cache, req, ret>>
Store(t) == /\ pc[t] = "built"
            /\ cache' = [cache EXCEPT ![<<req[t].a, req[t].h>>] = built[t]]
            /\ pins' = pins \union {req[t].a}
            /\ ret' = [ret EXCEPT ![t] = built[t]]
            /\ pc' = [pc EXCEPT ![t] = "done"]
            /\ UNCHANGED <<heap, live, req, built>>
Return(t) == /\ pc[t] = "done"
             /\ pc' = [pc EXCEPT ![t] = "idle"] /\ req' = [req EXCEPT ![t] = NoReq]
             /\ UNCHANGED <<heap, live, pins, cache, built, ret>>
CNext == \/ \E a \in Addr, d \in Desc : Alloc(a, d)
         \/ \E a \in Addr : Drop(a)
         \/ \E t \in Threads, a \in Addr, h \in HS : Call(t, a, h)
         \/ \E t \in Threads : Probe(t) \/ Build(t) \/ Store(t) \/ Return(t)

Convs == {NoConv} \union {Fresh(d, h) : d \in Desc \union {Free}, h \in HS}
Reqs == {NoReq} \union [a : Addr, h : HS, want : Desc \union {Free}]
PCs == {"idle", "key", "miss", "built", "done"}
TypeOK == /\ heap \in [Addr -> Desc \union {Free}] /\ live \in SUBSET Addr /\ pins \in SUBSET Addr
          /\ cache \in [Addr \X HS -> Convs] /\ pc \in [Threads -> PCs] /\ req \in [Threads -> Reqs]
          /\ built \in [Threads -> Convs] /\ ret \in [Threads -> Convs]
IndInit == TypeOK

Transparent == \A t \in Threads : pc[t] = "done" => ret[t] = Fresh(req[t].want, req[t].h)
CacheSound == \A a \in Addr, h \in HS : cache[<<a, h>>] /= NoConv => cache[<<a, h>>] = Fresh(heap[a], h)
IndInv ==
  /\ TypeOK
  /\ \A a \in live : heap[a] /= Free
  /\ \A a \in pins : heap[a] /= Free
  /\ \A a \in Addr, h \in HS : cache[<<a, h>>] /= NoConv => (a \in pins /\ cache[<<a, h>>] = Fresh(heap[a], h))
  /\ \A t \in Threads : pc[t] /= "idle" => (req[t].a \in live /\ req[t].h \in HS /\ req[t].want = heap[req[t].a])
  /\ \A t \in Threads : pc[t] = "built" => built[t] = Fresh(req[t].want, req[t].h)
  /\ Transparent
=============================================================================
