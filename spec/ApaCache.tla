------------------------------ MODULE ApaCache ------------------------------
(***************************************************************************)
(* C10 part A, unbounded histories: an inductive invariant of the repaired *)
(* cache design (the cache entry keeps the key's type alive; the number of *)
(* registered global handlers is part of the key), discharged by Apalache: *)
(*    CInit => IndInv                       (--init=CInit  --length=0)     *)
(*    IndInv /\ CNext => IndInv'            (--init=IndInit --length=1)    *)
(* and IndInv contains Transparent and CacheSound.  Same actions as        *)
(* PaneCache.tla (PinKeyArgs = TRUE, RegDesign = "keyed"), written here    *)
(* with Apalache type annotations and without the TLC-only level bound.    *)
(***************************************************************************)
EXTENDS Integers, Sequences, FiniteSets

Addr == {1, 2, 3}
Desc == {"ListStr", "DictStrFloat", "TupIntStr"}
HS == {"h0", "h1"}
Threads == {1, 2}
MaxReg == 2
Regs == 0..MaxReg
Free == "free"

VARIABLES
  \* @type: Int -> Str;
  heap,
  \* @type: Set(Int);
  live,
  \* @type: Set(Int);
  pins,
  \* @type: <<Int, Str, Int>> -> <<Str, Str, Int>>;
  cache,
  \* @type: Int -> Str;
  pc,
  \* @type: Int -> {a: Int, h: Str, want: Str, r0: Int};
  req,
  \* @type: Int -> <<Str, Str, Int>>;
  built,
  \* @type: Int -> <<Str, Str, Int>>;
  ret,
  \* @type: Int;
  reg

\* @type: <<Str, Str, Int>>;
NoConv == <<"none", "none", 0>>
\* @type: (Str, Str, Int) => <<Str, Str, Int>>;
Fresh(d, h, r) == <<d, h, r>>
\* @type: {a: Int, h: Str, want: Str, r0: Int};
NoReq == [a |-> 0, h |-> "none", want |-> "none", r0 |-> 0]

CInit == /\ heap = [a \in Addr |-> Free] /\ live = {} /\ pins = {}
         /\ cache = [k \in Addr \X HS \X Regs |-> NoConv]
         /\ pc = [t \in Threads |-> "idle"] /\ req = [t \in Threads |-> NoReq]
         /\ built = [t \in Threads |-> NoConv] /\ ret = [t \in Threads |-> NoConv]
         /\ reg = 0

Alloc(a, d) == /\ heap[a] = Free
               /\ heap' = [heap EXCEPT ![a] = d] /\ live' = live \union {a}
               /\ UNCHANGED <<pins, cache, pc, req, built, ret, reg>>
InUse(a) == \E t \in Threads : pc[t] /= "idle" /\ req[t].a = a
Drop(a) == /\ a \in live /\ ~InUse(a)
           /\ live' = live \ {a}
           /\ heap' = IF a \in pins THEN heap ELSE [heap EXCEPT ![a] = Free]
           /\ UNCHANGED <<pins, cache, pc, req, built, ret, reg>>
Call(t, a, h) == /\ pc[t] = "idle" /\ a \in live
                 /\ req' = [req EXCEPT ![t] = [a |-> a, h |-> h, want |-> heap[a], r0 |-> reg]]
                 /\ pc' = [pc EXCEPT ![t] = "key"]
                 /\ UNCHANGED <<heap, live, pins, cache, built, ret, reg>>
Probe(t) == /\ pc[t] = "key"
            /\ LET k == <<req[t].a, req[t].h, req[t].r0>> IN
               IF cache[k] /= NoConv
               THEN ret' = [ret EXCEPT ![t] = cache[k]] /\ pc' = [pc EXCEPT ![t] = "done"]
               ELSE ret' = ret /\ pc' = [pc EXCEPT ![t] = "miss"]
            /\ UNCHANGED <<heap, live, pins, cache, req, built, reg>>
Build(t) == /\ pc[t] = "miss"
            /\ built' = [built EXCEPT ![t] = Fresh(heap[req[t].a], req[t].h, reg)]
            /\ pc' = [pc EXCEPT ![t] = "built"]
            /\ UNCHANGED <<heap, live, pins, cache, req, ret, reg>>
Store(t) == /\ pc[t] = "built"
            /\ cache' = [cache EXCEPT ![<<req[t].a, req[t].h, req[t].r0>>] = built[t]]
            /\ pins' = pins \union {req[t].a}
            /\ ret' = [ret EXCEPT ![t] = built[t]]
            /\ pc' = [pc EXCEPT ![t] = "done"]
            /\ UNCHANGED <<heap, live, req, built, reg>>
Return(t) == /\ pc[t] = "done"
             /\ pc' = [pc EXCEPT ![t] = "idle"] /\ req' = [req EXCEPT ![t] = NoReq]
             /\ UNCHANGED <<heap, live, pins, cache, built, ret, reg>>
Register == /\ reg < MaxReg /\ reg' = reg + 1
            /\ UNCHANGED <<heap, live, pins, cache, pc, req, built, ret>>
CNext == \/ \E a \in Addr, d \in Desc : Alloc(a, d)
         \/ \E a \in Addr : Drop(a)
         \/ \E t \in Threads, a \in Addr, h \in HS : Call(t, a, h)
         \/ \E t \in Threads : Probe(t) \/ Build(t) \/ Store(t) \/ Return(t)
         \/ Register

Convs == {NoConv} \union {Fresh(d, h, r) : d \in Desc \union {Free}, h \in HS, r \in Regs}
Reqs == {NoReq} \union [a : Addr, h : HS, want : Desc \union {Free}, r0 : Regs]
PCs == {"idle", "key", "miss", "built", "done"}
TypeOK == /\ heap \in [Addr -> Desc \union {Free}] /\ live \in SUBSET Addr /\ pins \in SUBSET Addr
          /\ cache \in [Addr \X HS \X Regs -> Convs] /\ pc \in [Threads -> PCs] /\ req \in [Threads -> Reqs]
          /\ built \in [Threads -> Convs] /\ ret \in [Threads -> Convs] /\ reg \in Regs
IndInit == TypeOK

(* a completed lookup returns what a fresh build would, for a registry that was current during the call *)
Transparent == \A t \in Threads : pc[t] = "done" =>
                  \E r \in Regs : r >= req[t].r0 /\ r <= reg /\ ret[t] = Fresh(req[t].want, req[t].h, r)
CacheSound == \A a \in Addr, h \in HS, r \in Regs : cache[<<a, h, r>>] /= NoConv =>
                 \E b \in Regs : b >= r /\ b <= reg /\ cache[<<a, h, r>>] = Fresh(heap[a], h, b)
IndInv ==
  /\ TypeOK
  /\ \A a \in live : heap[a] /= Free
  /\ \A a \in pins : heap[a] /= Free
  /\ \A a \in Addr, h \in HS, r \in Regs : cache[<<a, h, r>>] /= NoConv =>
        (a \in pins /\ \E b \in Regs : b >= r /\ b <= reg /\ cache[<<a, h, r>>] = Fresh(heap[a], h, b))
  /\ \A t \in Threads : pc[t] /= "idle" =>
        (req[t].a \in live /\ req[t].h \in HS /\ req[t].want = heap[req[t].a] /\ req[t].r0 <= reg)
  /\ \A t \in Threads : pc[t] = "built" =>
        \E b \in Regs : b >= req[t].r0 /\ b <= reg /\ built[t] = Fresh(req[t].want, req[t].h, b)
  /\ Transparent
=============================================================================
