---------------------------- MODULE PaneGrammar ----------------------------
(***************************************************************************)
(* The state graph over the GRAMMAR of type expressions and values.        *)
(* TLC explores it breadth-first: one action per production (Grow wraps    *)
(* the current type in one more constructor), then PickValue chooses a     *)
(* value from Gen(ty): members, near-members (one position perturbed by    *)
(* something of another kind) and an arbitrary pool.  Every state with     *)
(* ph = "case" is one (type, value) case; the invariants below are laws of *)
(* the semantics PaneSem that must hold for every case, and the dumped     *)
(* cases are replayed into the real code (harness/replay).                 *)
(***************************************************************************)
EXTENDS PaneSem, TLC

CONSTANTS MaxDepth,     \* nesting depth of generated types
          Focus,        \* which family of the universe: "core", "scalar", ...
          OuterWrap     \* "all": every constructor at every level; "few": beyond level 1 only WrapFew

VARIABLES ty, val, ph, dep
vars == <<ty, val, ph, dep>>

-----------------------------------------------------------------------------
(* type constructors *)
TS(k)        == [k |-> k]
TSeq(k, e)   == [k |-> k, e |-> e]
TTuple(es)   == [k |-> "tuple", es |-> es]
TDict(k, kt, vt) == [k |-> k, kt |-> kt, vt |-> vt]
TCounter(kt) == [k |-> "counter", kt |-> kt]
TStruct(fs)  == [k |-> "struct", fs |-> fs]
TUnion(alts) == [k |-> "union", alts |-> alts]
TLit(vs)     == [k |-> "lit", vs |-> vs]
TEnum(n, vs) == [k |-> "enum", name |-> n, vs |-> vs]
TAnn(t, cs)  == [k |-> "ann", t |-> t, cs |-> cs]
TSub(n, b)   == [k |-> "sub", name |-> n, base |-> b]
TOpt(t)      == TUnion(<<t, TS("none")>>)

NoDef    == [k |-> "nodef", v |-> MkNone]
DefVal(x) == [k |-> "val", v |-> x]
DefFac(x) == [k |-> "fac", v |-> x]
Fld(n, t, d) == [n |-> n, t |-> t, d |-> d, kw |-> "F", ins |-> <<n>>, out |-> n, ex |-> "F"]
NoHook == [k |-> "nohook"]
TCls(name, fs, inf, outf) ==
  [k |-> "cls", name |-> name, fs |-> fs, inf |-> inf, outf |-> outf, extra |-> "F", hook |-> NoHook]

-----------------------------------------------------------------------------
(* the atom pools; string tokens are keys of StrFacts (see harness/vocab.py POOL) *)
F15  == MkFloat(<<3, 2>>)
F20  == MkFloat(<<2, 1>>)
FInf == [k |-> "float", q |-> Zero, sp |-> "inf"]
FNan == [k |-> "float", q |-> Zero, sp |-> "nan"]
C12  == MkComplex(Fin(<<1, 1>>), Fin(<<2, 1>>))

ArbAtoms == { MkNone, MkBool("T"), MkBool("F"), MkInt(0), MkInt(1), MkInt(5), MkInt(-3),
              F15, F20, FNan, C12, MkStr("s_a"), MkStr("s_empty"), MkStr("s_5"), MkBytes("b_x"), MkBArr("b_x") }
ArbComposite == { MkList(<<>>), MkList(<<MkInt(1)>>), MkTuple(<<MkStr("s_a"), MkInt(1)>>),
                  MkDict(<<>>), MkDict(<< <<MkStr("s_a"), MkInt(1)>> >>), MkList(<<MkStr("s_a")>>) }
Arb == ArbAtoms \cup ArbComposite

ScalarMembers(k) ==
  CASE k = "none"  -> {MkNone}
    [] k = "bool"  -> {MkBool("T"), MkBool("F")}
    [] k = "int"   -> {MkInt(0), MkInt(5), MkInt(-3)}
    [] k = "float" -> {F15, F20, MkInt(5), FInf}
    [] k = "complex" -> {C12, F15, MkInt(5)}
    [] k = "str"   -> {MkStr("s_a"), MkStr("s_empty")}
    [] k = "bytes" -> {MkBytes("b_x"), MkBArr("b_x")}
    [] k = "bytearray" -> {MkBytes("b_x"), MkBArr("b_x")}
    [] k = "decimal"  -> {MkInt(5), F15, MkStr("s_dec"), MkStr("s_5")}
    [] k = "fraction" -> {MkInt(5), F15, MkStr("s_frac"), MkStr("s_5")}
    [] k = "date"     -> {MkStr("s_date")}
    [] k = "time"     -> {MkStr("s_time")}
    [] k = "datetime" -> {MkStr("s_dt"), MkStr("s_date")}
    [] k = "path"     -> {MkStr("s_a"), MkStr("s_path")}
    [] k = "pattern"  -> {MkStr("s_a"), MkStr("s_re")}
    [] k = "patternb" -> {MkBytes("b_x")}
    [] k = "any"      -> {MkInt(5), MkStr("s_a"), MkList(<<MkInt(1)>>), MkNone}

(* strings that look right for some kind but make the standard library raise *)
Tricky == {MkStr("s_frac0"), MkStr("s_badre"), MkStr("s_ovre"), MkStr("s_baddate"), MkStr("s_nan"),
           MkStr("s_date"), MkStr("s_dec"), MkStr("s_frac")}

(* can the data value be a dict key in Python source (hashable, as data) *)
RECURSIVE KeyAble(_)
KeyAble(v) == CASE v.k = "bytes" -> v.mut = "F"
                [] v.k = "seq" -> v.f = "tuple" /\ \A i \in DOMAIN v.xs : KeyAble(v.xs[i])
                [] v.k = "map" -> FALSE
                [] OTHER -> TRUE

Pick1(S) == CHOOSE x \in S : TRUE
Pick2(S) == IF Cardinality(S) < 2 THEN Pick1(S) ELSE CHOOSE x \in S : x # Pick1(S)

RECURSIVE Members(_), Gen(_)
Members(T) ==
  CASE T.k \in ScalarKinds -> ScalarMembers(T.k)
    [] T.k \in SeqKinds ->
         LET M == Members(T.e) IN
         {MkList(<<>>), MkList(<<Pick1(M)>>), MkList(<<Pick1(M), Pick2(M)>>), MkTuple(<<Pick2(M)>>)}
    [] T.k = "tuple" ->
         { MkList([i \in DOMAIN T.es |-> Pick1(Members(T.es[i]))]),
           MkTuple([i \in DOMAIN T.es |-> Pick2(Members(T.es[i]))]) }
    [] T.k \in {"dict", "defaultdict", "ordereddict"} ->
         LET K == {m \in Members(T.kt) : KeyAble(m)}
             V == Members(T.vt) IN
         {MkDict(<<>>)} \cup
         (IF K = {} THEN {} ELSE
            { MkDict(<< <<Pick1(K), Pick1(V)>> >>) } \cup
            (IF PyEq(Pick1(K), Pick2(K)) THEN {} ELSE { MkDict(<< <<Pick1(K), Pick2(V)>>, <<Pick2(K), Pick1(V)>> >>) }))
    [] T.k = "counter" ->
         LET K == {m \in Members(T.kt) : KeyAble(m)} IN
         {MkDict(<<>>)} \cup (IF K = {} THEN {} ELSE { MkDict(<< <<Pick1(K), MkInt(5)>> >>) })
    [] T.k = "struct" ->
         { MkDict([i \in DOMAIN T.fs |-> <<MkStr(T.fs[i][1]), Pick1(Members(T.fs[i][2]))>>]),
           MkDict([i \in DOMAIN T.fs |-> <<MkStr(T.fs[i][1]), Pick2(Members(T.fs[i][2]))>>]) }
    [] T.k = "union" -> UNION {{Pick1(Members(T.alts[i])), Pick2(Members(T.alts[i]))} : i \in DOMAIN T.alts}
    [] T.k = "lit"   -> Range(T.vs)
    [] T.k = "enum"  -> Range(T.vs)
    [] T.k = "ann"   -> Members(T.t)
    [] T.k = "sub"   -> Members(T.base)
    [] T.k = "cls"   ->
         { MkDict([i \in DOMAIN T.fs |-> <<MkStr(T.fs[i].ins[1]), Pick1(Members(T.fs[i].t))>>]),
           MkDict(<< <<MkStr(T.fs[1].ins[1]), Pick2(Members(T.fs[1].t))>> >>),
           MkList([i \in DOMAIN T.fs |-> Pick1(Members(T.fs[i].t))]),
           MkTuple(<< Pick2(Members(T.fs[1].t)) >>) }

(* member m with position i replaced by p *)
Repl(s, i, p) == [s EXCEPT ![i] = p]

Gen(T) ==
  Members(T) \cup Arb \cup
  CASE T.k \in ScalarKinds -> Tricky
    [] T.k \in SeqKinds ->
         LET m == Pick1(Members(T.e)) IN
         { MkList(<<m, p>>) : p \in Gen(T.e) } \cup { MkTuple(<<p>>) : p \in Tricky }
    [] T.k = "tuple" ->
         LET base == [i \in DOMAIN T.es |-> Pick1(Members(T.es[i]))] IN
         UNION { { MkList(Repl(base, i, p)) : p \in Gen(T.es[i]) } : i \in DOMAIN T.es }
         \cup { MkList(Append(base, MkInt(1))), MkList(SubSeq(base, 1, Len(base) - 1)) }
    [] T.k \in {"dict", "defaultdict", "ordereddict"} ->
         LET K == {m \in Members(T.kt) : KeyAble(m)}
             V == Members(T.vt) IN
         IF K = {} THEN {}
         ELSE { MkDict(<< <<Pick1(K), p>> >>) : p \in Gen(T.vt) } \cup
              { MkDict(<< <<p, Pick1(V)>> >>) : p \in {g \in Gen(T.kt) : KeyAble(g)} }
    [] T.k = "counter" ->
         LET K == {m \in Members(T.kt) : KeyAble(m)} IN
         IF K = {} THEN {}
         ELSE { MkDict(<< <<Pick1(K), p>> >>) : p \in ArbAtoms } \cup
              { MkDict(<< <<p, MkInt(1)>> >>) : p \in {g \in Gen(T.kt) : KeyAble(g)} }
    [] T.k = "struct" ->
         LET base == [i \in DOMAIN T.fs |-> <<MkStr(T.fs[i][1]), Pick1(Members(T.fs[i][2]))>>] IN
         UNION { { MkDict(Repl(base, i, <<base[i][1], p>>)) : p \in Gen(T.fs[i][2]) } : i \in DOMAIN T.fs }
         \cup { MkDict(Append(base, <<MkStr("s_zz"), MkInt(1)>>)),
                MkDict(Append(base, <<MkInt(1), MkInt(1)>>)),
                MkDict(SubSeq(base, 1, Len(base) - 1)) }
    [] T.k = "union" -> UNION { Gen(T.alts[i]) : i \in DOMAIN T.alts }
    [] T.k = "lit"   -> {}
    [] T.k = "enum"  -> {}
    [] T.k = "ann"   -> Gen(T.t)
    [] T.k = "sub"   -> Gen(T.base)
    [] T.k = "cls"   ->
         LET base == [i \in DOMAIN T.fs |-> <<MkStr(T.fs[i].ins[1]), Pick1(Members(T.fs[i].t))>>]
             pos  == [i \in DOMAIN T.fs |-> Pick1(Members(T.fs[i].t))] IN
         UNION { { MkDict(Repl(base, i, <<base[i][1], p>>)) : p \in Gen(T.fs[i].t) } : i \in DOMAIN T.fs }
         \cup UNION { { MkList(Repl(pos, i, p)) : p \in Gen(T.fs[i].t) } : i \in DOMAIN T.fs }
         \cup { MkDict(Append(base, <<MkStr("s_zz"), MkInt(1)>>)),
                MkDict(SubSeq(base, 2, Len(base))),
                MkList(Append(pos, MkInt(1))),
                MkList(<<>>), MkStr("s_ab") }

-----------------------------------------------------------------------------
(* the productions *)
LeafKinds ==
  CASE Focus = "core"   -> {"none", "bool", "int", "float", "complex", "str", "bytes", "any"}
    [] Focus = "scalar" -> ScalarKinds
    [] OTHER -> {"int", "str"}
Leaves == { TS(k) : k \in LeafKinds }
          \cup (IF Focus \in {"core", "scalar"}
                THEN { TLit(<<MkStr("s_a"), MkInt(1), MkNone>>), TLit(<<MkBool("T")>>),
                       TEnum("Color", <<MkStr("s_a"), MkStr("s_b")>>), TEnum("Num", <<MkInt(1), MkInt(2)>>),
                       TSub("MyInt", TS("int")), TSub("MyStr", TS("str")) }
                ELSE {})

TInt == TS("int")
TStr == TS("str")
KeyKinds == {"int", "str", "float", "bool", "none", "bytes", "decimal", "fraction", "date", "path",
             "lit", "enum", "tuple", "frozenset", "any", "union", "ann", "sub", "complex", "time", "datetime"}

Wrap(T) ==
  { TSeq(k, T) : k \in SeqKinds }
  \cup { TTuple(<<T>>), TTuple(<<T, TInt>>), TTuple(<<TStr, T>>) }
  \cup { TDict(k, TStr, T) : k \in {"dict", "defaultdict", "ordereddict"} }
  \cup (IF T.k \in KeyKinds THEN { TDict("dict", T, TInt), TCounter(T) } ELSE {})
  \cup { TStruct(<< <<"s_a", T>> >>), TStruct(<< <<"s_a", TInt>>, <<"s_b", T>> >>) }
  \cup { TUnion(<<T, TStr>>), TUnion(<<TS("none"), T>>), TUnion(<<TInt, T>>) }
  \cup { TCls("K1", << Fld("s_a", T, NoDef), Fld("s_b", TInt, DefVal(MkInt(7))) >>, <<"struct", "tuple">>, "struct") }

(* a representative of each family of embedding context, for the outer levels of the quick tier *)
WrapFew(T) ==
  { TSeq("list", T), TDict("dict", TStr, T), TTuple(<<TStr, T>>), TUnion(<<TS("none"), T>>),
    TCls("K1", << Fld("s_a", T, NoDef), Fld("s_b", TInt, DefVal(MkInt(7))) >>, <<"struct", "tuple">>, "struct") }

Init == /\ ph = "grow" /\ dep = 0 /\ ty \in Leaves /\ val = MkNone
Grow == /\ ph = "grow" /\ dep < MaxDepth
        /\ ty' \in (IF dep = 0 \/ OuterWrap = "all" THEN Wrap(ty) ELSE WrapFew(ty))
        /\ dep' = dep + 1 /\ UNCHANGED <<val, ph>>
PickValue == /\ ph = "grow" /\ ph' = "case"
             /\ val' \in Gen(ty) /\ UNCHANGED <<ty, dep>>
Next == Grow \/ PickValue
Spec == Init /\ [][Next]_vars

-----------------------------------------------------------------------------
(* Laws of the semantics, evaluated on every case state.                   *)
IsCase == ph = "case"

(* the verdict is one of the three values, and every generated member is not rejected *)
VerdictTotal == IsCase => Verdict(ty, val) \in {"A", "R", "D"}
(* generated members are accepted unless the type asks for the impossible (a set of unhashable
   images, Set[List[int]]): a vacuity guard for the generator, for the scalar and sequence leaves *)
MembersNotRejected == (ph = "grow" /\ dep = 0) => \A m \in Members(ty) : Verdict(ty, m) # "R"

(* an accepted value has an image, the image serialises to data that is accepted again    *)
(* with the same image (C05/C06 as a law of Sem, where the serialised form is computable) *)
ImgDefined == (IsCase /\ Verdict(ty, val) = "A") => Img(ty, val).k \in STRING

(* C11: a union accepts iff some member does not reject, flattening does not matter *)
UnionLaw ==
  (IsCase /\ ty.k = "union") =>
     /\ (Verdict(ty, val) = "R") = (\A i \in DOMAIN ty.alts : Verdict(ty.alts[i], val) = "R")
     /\ (Verdict(ty, val) = "A") => \E i \in DOMAIN ty.alts :
            /\ Verdict(ty.alts[i], val) = "A" /\ Img(ty, val) = Img(ty.alts[i], val)
            /\ \A j \in 1..(i - 1) : Verdict(ty.alts[j], val) = "R"
=============================================================================
