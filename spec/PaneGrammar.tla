---------------------------- MODULE PaneGrammar ----------------------------
(***************************************************************************)
(* The state graph over the GRAMMAR of type expressions and values.        *)
(* TLC explores it breadth-first: one action per production (Grow wraps    *)
(* the current type in one more constructor), then PickValue chooses a     *)
(* value from Gen(ty): members, near-members (one position perturbed by    *)
(* something of another kind) and an arbitrary pool.  Every state with     *)
(* ph = "case" is one (type, value) case; the invariants below are laws of *)
(* the semantics PaneSem that must hold for every case, and the dumped     *)
(* cases are replayed into the real code (harness/replay).                 *)
(***************************************************************************)
EXTENDS PaneSem, TLC

CONSTANTS MaxDepth,     \* nesting depth of generated types
          Focus,        \* which family of the universe: "core", "scalar", ...
          OuterWrap     \* "all": every constructor at every level; "few": beyond level 1 only WrapFew

VARIABLES ty, val, ph, dep
vars == <<ty, val, ph, dep>>

-----------------------------------------------------------------------------
(* type constructors *)
TS(k)        == [k |-> k]
TSeq(k, e)   == [k |-> k, e |-> e]
TTuple(es)   == [k |-> "tuple", es |-> es]
TDict(k, kt, vt) == [k |-> k, kt |-> kt, vt |-> vt]
TCounter(kt) == [k |-> "counter", kt |-> kt]
TStruct(fs)  == [k |-> "struct", fs |-> fs]
TUnion(alts) == [k |-> "union", alts |-> alts]
TLit(vs)     == [k |-> "lit", vs |-> vs]
TEnum(n, vs) == [k |-> "enum", name |-> n, vs |-> vs]
TAnn(t, cs)  == [k |-> "ann", t |-> t, cs |-> cs]
TSub(n, b)   == [k |-> "sub", name |-> n, base |-> b]
TOpt(t)      == TUnion(<<t, TS("none")>>)

NoDef    == [k |-> "nodef", v |-> MkNone]
DefVal(x) == [k |-> "val", v |-> x]
DefFac(x) == [k |-> "fac", v |-> x]
Fld(n, t, d) == [n |-> n, t |-> t, d |-> d, kw |-> "F", ins |-> <<n>>, out |-> n, ex |-> "F", init |-> "T"]
FldX(n, t, d, kw, ins, out, ex, init) ==
  [n |-> n, t |-> t, d |-> d, kw |-> kw, ins |-> ins, out |-> out, ex |-> ex, init |-> init]
NoHook == [k |-> "nohook"]
TCls(name, fs, inf, outf) ==
  [k |-> "cls", name |-> name, fs |-> fs, inf |-> inf, outf |-> outf, extra |-> "F", hook |-> NoHook]

-----------------------------------------------------------------------------
(* the atom pools; string tokens are keys of StrFacts (see harness/vocab.py POOL) *)
F50  == MkFloat(<<5, 1>>)
C50  == MkComplex(Fin(<<5, 1>>), Fin(Zero))
F15  == MkFloat(<<3, 2>>)
F20  == MkFloat(<<2, 1>>)
FInf == [k |-> "float", q |-> Zero, sp |-> "inf"]
FNan == [k |-> "float", q |-> Zero, sp |-> "nan"]
BigInt == [k |-> "bigint", sign |-> 1]          \* an integer that no float can hold (10 ** 400)
C12  == MkComplex(Fin(<<1, 1>>), Fin(<<2, 1>>))

ArbAtoms == { MkNone, MkBool("T"), MkBool("F"), MkInt(0), MkInt(1), MkInt(5), MkInt(-3),
              F15, F20, F50, C50, FNan, FInf, BigInt, C12, MkStr("s_a"), MkStr("s_empty"), MkStr("s_5"), MkBytes("b_x"), MkBArr("b_x") }
ArbComposite == { MkList(<<>>), MkList(<<MkInt(1)>>), MkTuple(<<MkStr("s_a"), MkInt(1)>>),
                  MkDict(<<>>), MkDict(<< <<MkStr("s_a"), MkInt(1)>> >>), MkList(<<MkStr("s_a")>>),
                  MkSeq("other", <<MkInt(1)>>), MkMap("proxy", << <<MkStr("s_a"), MkInt(1)>> >>),
                  \* a defaultdict with a live factory (looking up a missing key inserts it: the library must not do that)
                  MkMap("ddlist", << <<MkStr("s_a"), MkInt(1)>> >>) }
Arb == ArbAtoms \cup ArbComposite

NastyStr == { MkStr(tk) : tk \in {"s_uni", "s_ml", "s_sp", "s_yes", "s_null", "s_tilde", "s_1e3", "s_date", "s_colon", "s_empty", "s_5"} }

ScalarMembers(k) ==
  CASE k = "none"  -> {MkNone}
    [] k = "bool"  -> {MkBool("T"), MkBool("F")}
    [] k = "int"   -> {MkInt(0), MkInt(5), MkInt(-3)}
    [] k = "float" -> {F15, F20, MkInt(5), FInf}
    [] k = "complex" -> {C12, F15, MkInt(5)}
    [] k = "str"   -> IF Focus = "io" THEN NastyStr \cup {MkStr("s_a")} ELSE {MkStr("s_a"), MkStr("s_empty")}
    [] k = "bytes" -> {MkBytes("b_x"), MkBArr("b_x")}
    [] k = "bytearray" -> {MkBytes("b_x"), MkBArr("b_x")}
    [] k = "decimal"  -> {MkInt(5), F15, MkStr("s_dec"), MkStr("s_5")}
    [] k = "fraction" -> {MkInt(5), F15, MkStr("s_frac"), MkStr("s_5")}
    [] k = "date"     -> {MkStr("s_date")}
    [] k = "time"     -> {MkStr("s_time")}
    [] k = "datetime" -> {MkStr("s_dt"), MkStr("s_date")}
    [] k = "path"     -> {MkStr("s_a"), MkStr("s_path")}
    [] k = "pattern"  -> {MkStr("s_a"), MkStr("s_re")}
    [] k = "patternb" -> {MkBytes("b_x")}
    [] k = "any"      -> {MkInt(5), MkStr("s_a"), MkList(<<MkInt(1)>>), MkNone}

(* strings that look right for some kind but make the standard library raise *)
Tricky == {MkStr("s_frac0"), MkStr("s_badre"), MkStr("s_ovre"), MkStr("s_baddate"), MkStr("s_nan"),
           MkStr("s_date"), MkStr("s_dec"), MkStr("s_frac")}

(* can the data value be a dict key in Python source (hashable, as data) *)
RECURSIVE KeyAble(_)
KeyAble(v) == CASE v.k = "bytes" -> v.mut = "F"
                [] v.k = "seq" -> v.f = "tuple" /\ \A i \in DOMAIN v.xs : KeyAble(v.xs[i])
                [] v.k = "map" -> FALSE
                [] OTHER -> TRUE

Pick1(S) == CHOOSE x \in S : TRUE
Pick2(S) == IF Cardinality(S) < 2 THEN Pick1(S) ELSE CHOOSE x \in S : x # Pick1(S)

(* nested sequences offered to n-d array types: rectangular, ragged, scalars, mixed kinds *)
NdVals == { MkList(<<MkList(<<MkInt(1), MkInt(2)>>), MkList(<<MkInt(0), MkInt(5)>>)>>), MkList(<<MkInt(1), MkInt(2)>>),
            MkTuple(<<MkList(<<MkInt(1), MkInt(2)>>)>>), MkInt(5), MkList(<<>>), MkList(<<MkInt(1), MkInt(2), MkInt(5)>>),
            MkList(<<MkList(<<MkInt(1)>>), MkList(<<MkInt(2), MkInt(5)>>)>>), MkList(<<MkInt(1), MkStr("s_a")>>), MkList(<<F15, MkInt(2)>>),
            MkStr("s_a"), MkList(<<MkList(<<MkList(<<MkInt(1)>>)>>)>>) }

(* values around the thresholds and lengths the stock conditions use *)
CondVals ==
  { MkInt(n) : n \in {-2, -1, 0, 1, 2} }
  \cup { MkFloat(<<n, 2>>) : n \in {-3, -1, 1, 3, 5} } \cup { MkFloat(<<0, 1>>), MkFloat(<<1, 1>>), MkFloat(<<-1, 1>>) }
  \cup { [k |-> "float", q |-> Zero, sp |-> s] : s \in {"inf", "ninf", "nan", "nzero"} }
  \cup { MkStr("s_frac"), MkStr("s_5"), MkStr("s_nfrac"), MkStr("s_empty"), MkStr("s_ab"), MkStr("s_abc") }
  \cup { MkList(<<>>), MkList(<<MkInt(1)>>), MkList(<<MkInt(1), MkInt(1)>>), MkList(<<MkInt(1), MkInt(2)>>),
         MkList(<<MkInt(1), MkInt(1), MkInt(2)>>), MkList(<<MkInt(1), MkInt(2), MkInt(3)>>), MkTuple(<<F15, MkFloat(<<-1, 2>>)>>) }
  \cup { MkDict(<<>>), MkDict(<< <<MkStr("s_a"), MkInt(1)>> >>),
         MkDict(<< <<MkStr("s_a"), MkInt(1)>>, <<MkStr("s_b"), MkInt(2)>>, <<MkStr("s_c"), MkInt(3)>> >>) }

(* the data form of <<tag, body>> in the layout of T; `way` picks one of two key orders *)
TagWrap(T, tag, body, way) ==
  CASE T.lay = "int" -> IF body.k # "map" THEN MkNone
                        ELSE LET rest == SelectSeq(body.ps, LAMBDA p : p[1] # MkStr(T.tag)) IN
                             IF way = 1 THEN MkDict(<< <<MkStr(T.tag), tag>> >> \o rest)
                             ELSE MkDict(rest \o << <<MkStr(T.tag), tag>> >>)
    [] T.lay = "ext" -> IF KeyAble(tag) THEN MkDict(<< <<tag, body>> >>) ELSE MkNone
    [] T.lay = "adj" -> IF way = 1 THEN MkDict(<< <<MkStr(T.tk), tag>>, <<MkStr(T.ck), body>> >>)
                        ELSE MkDict(<< <<MkStr(T.ck), body>>, <<MkStr(T.tk), tag>> >>)

(* the shipped helper types of pane.types *)
TVol(e) == [k |-> "vol", e |-> e]
RangeCls(num) ==
  [k |-> "cls", name |-> "Range",
   fs |-> << Fld("s_start", num, NoDef), Fld("s_end", num, NoDef),
             Fld("s_n", TOpt(TAnn(TS("int"), <<[k |-> "nonneg"]>>)), DefVal(MkNone)),
             FldX("s_step", TOpt(num), DefVal(MkNone), "T", <<"s_step">>, "s_step", "F", "T") >>,
   inf |-> <<"struct", "tuple">>, outf |-> "struct", extra |-> "F", hook |-> [k |-> "rangehook"]]
RangeNums(T) == IF T.fs[1].t.k = "int" THEN {MkInt(0), MkInt(10), MkInt(3)}
                ELSE {MkFloat(<<0, 1>>), MkFloat(<<1, 1>>), F15, MkInt(2)}
RangeNs    == {MkInt(0), MkInt(1), MkInt(2), MkInt(3), MkInt(11), MkInt(-1), F20, MkNone}
RangeSteps == {MkInt(0), MkInt(1), MkInt(2), MkInt(3), MkInt(-1), MkInt(-3), MkFloat(<<1, 2>>), MkFloat(<<1, 4>>), MkNone}
RangeMap(s, e, n, st, hasn, hasst) ==
  MkDict(<< <<MkStr("s_start"), s>>, <<MkStr("s_end"), e>> >>
         \o (IF hasn THEN << <<MkStr("s_n"), n>> >> ELSE <<>>) \o (IF hasst THEN << <<MkStr("s_step"), st>> >> ELSE <<>>))
RangeMembers(T) ==
  LET N == RangeNums(T) a == Pick1(N) b == Pick2(N) IN
  { RangeMap(a, b, MkInt(2), MkNone, TRUE, FALSE), RangeMap(b, a, MkNone, MkInt(1), FALSE, TRUE),
    MkList(<<a, b, MkInt(2)>>), MkTuple(<<a, a, MkInt(0)>>) }
RangeGen(T) ==
  LET N == RangeNums(T) IN
  { RangeMap(s, e, n, MkNone, TRUE, FALSE) : s, e \in N, n \in RangeNs }
  \cup { RangeMap(s, e, MkNone, st, FALSE, TRUE) : s, e \in N, st \in RangeSteps }
  \cup { RangeMap(s, e, n, st, TRUE, TRUE) : s, e \in N, n \in {MkInt(2), MkInt(11), MkNone}, st \in {MkInt(1), MkInt(0), MkNone} }
  \cup { MkList(<<s, e, n>>) : s, e \in N, n \in RangeNs } \cup { MkTuple(<<s, e>>) : s, e \in N }
  \cup { MkList(<<Pick1(N), Pick2(N), MkInt(2), MkInt(1)>>), MkList(<<Pick1(N)>>), MkDict(<< <<MkStr("s_start"), Pick1(N)>> >>),
          RangeMap(MkStr("s_a"), Pick1(N), MkInt(2), MkNone, TRUE, FALSE), RangeMap(Pick1(N), FInf, MkInt(2), MkNone, TRUE, FALSE) }

RECURSIVE Members(_), Gen(_)
Members(T) ==
  CASE T.k \in ScalarKinds -> ScalarMembers(T.k)
    [] T.k \in SeqKinds ->
         LET M == Members(T.e) IN
         {MkList(<<>>), MkList(<<Pick1(M)>>), MkList(<<Pick1(M), Pick2(M)>>), MkTuple(<<Pick2(M)>>)}
    [] T.k = "tuple" ->
         { MkList([i \in DOMAIN T.es |-> Pick1(Members(T.es[i]))]),
           MkTuple([i \in DOMAIN T.es |-> Pick2(Members(T.es[i]))]) }
    [] T.k \in {"dict", "defaultdict", "ordereddict"} ->
         LET K == {m \in Members(T.kt) : KeyAble(m)}
             V == Members(T.vt)
             mixed == IF T.kt.k # "union" THEN {}     \* one key of each member type, in one mapping
                      ELSE LET ks == [i \in DOMAIN T.kt.alts |-> Pick1(Members(T.kt.alts[i]))] IN
                           IF (\A i \in DOMAIN ks : KeyAble(ks[i])) /\ ~Collides(ks)
                           THEN { MkDict([i \in DOMAIN ks |-> <<ks[i], Pick1(V)>>]) } ELSE {} IN
         {MkDict(<<>>)} \cup mixed \cup
         (IF K = {} THEN {} ELSE
            { MkDict(<< <<Pick1(K), Pick1(V)>> >>) } \cup
            (IF PyEq(Pick1(K), Pick2(K)) THEN {} ELSE { MkDict(<< <<Pick1(K), Pick2(V)>>, <<Pick2(K), Pick1(V)>> >>) }))
    [] T.k = "counter" ->
         LET K == {m \in Members(T.kt) : KeyAble(m)} IN
         {MkDict(<<>>)} \cup (IF K = {} THEN {} ELSE { MkDict(<< <<Pick1(K), MkInt(5)>> >>) })
    [] T.k = "struct" ->
         { MkDict([i \in DOMAIN T.fs |-> <<MkStr(T.fs[i][1]), Pick1(Members(T.fs[i][2]))>>]),
           MkDict([i \in DOMAIN T.fs |-> <<MkStr(T.fs[i][1]), Pick2(Members(T.fs[i][2]))>>]) }
    [] T.k = "union" -> UNION {{Pick1(Members(T.alts[i])), Pick2(Members(T.alts[i]))} : i \in DOMAIN T.alts}
    [] T.k = "lit"   -> Range(T.vs)
    [] T.k = "enum"  -> Range(T.vs)
    [] T.k = "ann"   -> Members(T.t)
    [] T.k = "ndarray" -> NdVals
    [] T.k = "sub"   -> Members(T.base)
    [] T.k = "vol"   -> Members(T.e) \cup Members(TSeq("list", T.e))
    [] T.k = "cls" /\ T.hook.k = "rangehook" -> RangeMembers(T)
    [] T.k = "tagged" ->
         UNION { UNION { { TagWrap(T, T.tags[i], b, 1), TagWrap(T, T.tags[i], b, 2) } :
                         b \in {m \in Members(T.vars[i]) : m.k = "map"} } : i \in DOMAIN T.vars } \ {MkNone}
    [] T.k = "cls"   ->
         LET F == SelectSeq(T.fs, LAMBDA f : f.init = "T")
             P == SelectSeq(F, LAMBDA f : f.kw = "F")
             R == SelectSeq(P, LAMBDA f : f.d.k = "nodef") IN
         { MkDict([i \in DOMAIN F |-> <<MkStr(F[i].ins[1]), Pick1(Members(F[i].t))>>]),
           MkDict([i \in DOMAIN F |-> <<MkStr(F[i].ins[Len(F[i].ins)]), Pick2(Members(F[i].t))>>]),
           MkDict([i \in DOMAIN R |-> <<MkStr(R[i].ins[1]), Pick1(Members(R[i].t))>>]),
           MkList([i \in DOMAIN P |-> Pick1(Members(P[i].t))]),
           MkTuple([i \in DOMAIN R |-> Pick2(Members(R[i].t))]) }

(* member m with position i replaced by p *)
Repl(s, i, p) == [s EXCEPT ![i] = p]

Gen(T) ==
  Members(T) \cup Arb \cup
  CASE T.k \in ScalarKinds -> Tricky
    [] T.k \in SeqKinds ->
         LET m == Pick1(Members(T.e)) IN
         { MkList(<<m, p>>) : p \in Gen(T.e) } \cup { MkTuple(<<p>>) : p \in Tricky }
    [] T.k = "tuple" ->
         LET base == [i \in DOMAIN T.es |-> Pick1(Members(T.es[i]))] IN
         UNION { { MkList(Repl(base, i, p)) : p \in Gen(T.es[i]) } : i \in DOMAIN T.es }
         \cup { MkList(Append(base, MkInt(1))), MkList(SubSeq(base, 1, Len(base) - 1)) }
    [] T.k \in {"dict", "defaultdict", "ordereddict"} ->
         LET K == {m \in Members(T.kt) : KeyAble(m)}
             V == Members(T.vt) IN
         IF K = {} THEN {}
         ELSE { MkDict(<< <<Pick1(K), p>> >>) : p \in Gen(T.vt) } \cup
              { MkDict(<< <<p, Pick1(V)>> >>) : p \in {g \in Gen(T.kt) : KeyAble(g)} } \cup
              \* two different keys that CONVERT to equal keys (1.5 and '1.50' as decimals): the verdict is left open,
              \* the two passes, the error tree and the input's integrity are not
              { MkDict(<< <<q[1], Pick1(V)>>, <<q[2], Pick2(V)>> >>) :
                  q \in { r \in K \X K : ~PyEq(r[1], r[2]) /\ Verdict(T.kt, r[1]) = "A" /\ Verdict(T.kt, r[2]) = "A"
                                          /\ PyEq(Img(T.kt, r[1]), Img(T.kt, r[2])) } }
    [] T.k = "counter" ->
         LET K == {m \in Members(T.kt) : KeyAble(m)} IN
         IF K = {} THEN {}
         ELSE { MkDict(<< <<Pick1(K), p>> >>) : p \in ArbAtoms } \cup
              { MkDict(<< <<p, MkInt(1)>> >>) : p \in {g \in Gen(T.kt) : KeyAble(g)} }
    [] T.k = "struct" ->
         LET base == [i \in DOMAIN T.fs |-> <<MkStr(T.fs[i][1]), Pick1(Members(T.fs[i][2]))>>] IN
         UNION { { MkDict(Repl(base, i, <<base[i][1], p>>)) : p \in Gen(T.fs[i][2]) } : i \in DOMAIN T.fs }
         \cup { MkDict(Append(base, <<MkStr("s_zz"), MkInt(1)>>)),
                MkDict(Append(base, <<MkInt(1), MkInt(1)>>)),
                MkDict(SubSeq(base, 1, Len(base) - 1)) }
    [] T.k = "union" -> UNION { Gen(T.alts[i]) : i \in DOMAIN T.alts }
    [] T.k = "lit"   -> {}
    [] T.k = "enum"  -> IF \E i \in DOMAIN T.vs : T.vs[i].k = "seq"
                        THEN { MkList(<<MkInt(1), MkInt(2)>>), MkList(<<MkFloat(<<1, 1>>), MkInt(2)>>), MkList(<<MkInt(1)>>),
                               MkList(<<MkList(<<MkInt(1)>>), MkInt(2)>>), MkTuple(<<MkDict(<<>>), MkInt(2)>>), MkList(<<MkInt(2), MkInt(1)>>) }
                        ELSE {}
    [] T.k = "ndarray" -> {}
    [] T.k = "ann"   -> Gen(T.t) \cup CondVals
    [] T.k = "sub"   -> Gen(T.base)
    [] T.k = "vol"   -> Gen(T.e) \cup Gen(TSeq("list", T.e))
    [] T.k = "cls" /\ T.hook.k = "rangehook" -> RangeGen(T)
    [] T.k = "tagged" ->
         LET okbody == MkDict(<< <<MkStr("s_y"), MkInt(1)>> >>)
             tagvals == Range(T.tags) \cup ArbAtoms \cup {MkStr("s_v3"), MkList(<<MkInt(1)>>), MkDict(<<>>), MkTuple(<<MkInt(1)>>)} IN
         \* every tag value (declared, unknown, ill-kinded) with a fixed body; every body with every declared tag
         ({ TagWrap(T, tg, okbody, 1) : tg \in tagvals }
          \cup UNION { { TagWrap(T, T.tags[i], b, 1) : b \in UNION { Gen(T.vars[j]) : j \in DOMAIN T.vars } } : i \in DOMAIN T.tags }
          \* tag absent, but another input name of some variant's tag field present
          \cup UNION { { MkDict(<< <<MkStr(a), tg>>, <<MkStr("s_y"), MkInt(1)>> >>) : tg \in Range(T.tags),
                          a \in Range(FieldByName(T.vars[i], T.tag).ins) \ {T.tag} } : i \in DOMAIN T.vars }
          \cup { MkDict(<< <<MkStr("s_y"), MkInt(1)>> >>),     \* tag absent
                 MkDict(<< <<MkStr(T.tk), T.tags[1]>> >>), MkDict(<< <<MkStr(T.ck), okbody>> >>),
                 MkDict(<< <<MkStr(T.tk), T.tags[1]>>, <<MkStr(T.ck), okbody>>, <<MkStr("s_zz"), MkInt(1)>> >>),
                 MkDict(<< <<T.tags[1], okbody>>, <<MkStr("s_zz"), okbody>> >>),
                 MkDict(<< <<MkStr(T.tk), T.tags[1]>>, <<MkStr("s_zz"), okbody>> >>),
                 MkMap("proxy", << <<MkStr(T.tag), T.tags[1]>>, <<MkStr("s_y"), MkInt(1)>> >>),
                 MkMap("ddlist", << <<MkStr(T.tag), T.tags[1]>>, <<MkStr("s_y"), MkInt(1)>> >>),
                 MkMap("ddlist", << <<MkStr("s_y"), MkInt(1)>> >>), MkMap("ddlist", << <<MkStr(T.tk), T.tags[1]>> >>),
                 MkMap("ddlist", << <<MkStr(T.ck), okbody>> >>), MkMap("ddlist", << <<T.tags[1], okbody>> >>),
                 MkMap("ddlist", << <<MkStr(T.tk), T.tags[1]>>, <<MkStr(T.ck), okbody>> >>) }) \ {MkNone}
    [] T.k = "cls"   ->
         LET F == SelectSeq(T.fs, LAMBDA f : f.init = "T")
             P == SelectSeq(F, LAMBDA f : f.kw = "F")
             base == [i \in DOMAIN F |-> <<MkStr(F[i].ins[1]), Pick1(Members(F[i].t))>>]
             pos  == [i \in DOMAIN P |-> Pick1(Members(P[i].t))]
             m1(i) == Pick1(Members(T.fs[i].t)) IN
         \* one field's value perturbed, by name and by position
         UNION { { MkDict(Repl(base, i, <<base[i][1], p>>)) : p \in Gen(F[i].t) } : i \in DOMAIN F }
         \cup UNION { { MkList(Repl(pos, i, p)) : p \in Gen(P[i].t) } : i \in DOMAIN P }
         \* every input name of every field alone; two names of one field together (duplicate);
         \* the Python name and the output name used as keys whether or not they are input names
         \cup UNION { { MkDict(<< <<MkStr(T.fs[i].ins[j]), m1(i)>> >>) : j \in DOMAIN T.fs[i].ins } : i \in DOMAIN T.fs }
         \cup UNION { { MkDict(<< <<MkStr(T.fs[i].ins[1]), m1(i)>>, <<MkStr(T.fs[i].ins[j]), m1(i)>> >>) :
                         j \in (DOMAIN T.fs[i].ins) \ {1} } : i \in DOMAIN T.fs }
         \* ... and a duplicate one of whose occurrences does not convert (first / second)
         \cup UNION { UNION { { MkDict(<< <<MkStr(T.fs[i].ins[1]), MkDict(<<>>)>>, <<MkStr(T.fs[i].ins[j]), m1(i)>> >>),
                                 MkDict(<< <<MkStr(T.fs[i].ins[1]), m1(i)>>, <<MkStr(T.fs[i].ins[j]), MkDict(<<>>)>> >>) } :
                               j \in (DOMAIN T.fs[i].ins) \ {1} } : i \in DOMAIN T.fs }
         \cup { MkDict(Repl(base, 1, <<MkStr(T.fs[i].n), m1(i)>>)) : i \in DOMAIN T.fs }
         \cup { MkDict(Repl(base, 1, <<MkStr(T.fs[i].out), m1(i)>>)) : i \in DOMAIN T.fs }
         \cup { MkDict(Append(base, <<MkStr(T.fs[i].n), m1(i)>>)) : i \in {j \in DOMAIN T.fs : T.fs[j].init = "F"} }
         \* the Python name beside an input name of the same field, when the Python name is not itself an input name
         \cup { MkDict(Append(base, <<MkStr(T.fs[i].n), m1(i)>>)) :
                   i \in {j \in DOMAIN T.fs : T.fs[j].init = "T" /\ \A q \in DOMAIN T.fs[j].ins : T.fs[j].ins[q] # T.fs[j].n} }
         \* unknown key, non-string key, missing first field, wrong lengths, non-containers
         \cup { MkDict(Append(base, <<MkStr("s_zz"), MkInt(1)>>)),
                MkDict(Append(base, <<MkInt(1), MkInt(1)>>)),
                MkDict(SubSeq(base, 2, Len(base))),
                MkMap("proxy", base), MkMap("ddlist", base), MkMap("ddlist", SubSeq(base, 2, Len(base))),
                MkList(Append(pos, MkInt(1))), MkSeq("other", pos),
                MkList(SubSeq(pos, 1, Len(pos) - 1)),
                MkList(<<>>), MkStr("s_ab"), MkStr("s_a"), MkBytes("b_x") }

-----------------------------------------------------------------------------
(* the productions: which leaves and which constructors, per family (Focus) *)
TInt == TS("int")
TStr == TS("str")
TFloat == TS("float")
KeyKinds == {"int", "str", "float", "bool", "none", "bytes", "decimal", "fraction", "date", "path",
             "lit", "enum", "tuple", "frozenset", "any", "union", "ann", "sub", "complex", "time", "datetime"}

ClsS(T) == TCls("KS", << Fld("s_a", T, NoDef), Fld("s_b", TInt, DefVal(MkInt(5))) >>, <<"struct">>, "struct")
ClsT(T) == TCls("KT", << Fld("s_a", T, NoDef), Fld("s_b", TInt, DefVal(MkInt(5))) >>, <<"struct", "tuple">>, "struct")
ClsP(T) == TCls("KP", << Fld("s_a", TStr, NoDef), Fld("s_b", T, NoDef) >>, <<"tuple">>, "tuple")

LitIS  == TLit(<<MkStr("s_a"), MkInt(1), MkNone>>)
EnumS  == TEnum("Color", <<MkStr("s_a"), MkStr("s_b")>>)
EnumI  == TEnum("Num", <<MkInt(1), MkInt(2)>>)
EnumN  == TEnum("Fill", <<MkNone, MkStr("s_a")>>)      \* a member whose value is None: null denotes it, also beside a bare None member
SubI   == TSub("MyInt", TInt)
SubS   == TSub("MyStr", TStr)
ExtraLeaves == { LitIS, TLit(<<MkBool("T")>>), EnumS, EnumI, EnumN, SubI, SubS,
                 TDict("dict", TUnion(<<TStr, TInt>>), TFloat), TDict("dict", TUnion(<<TInt, TS("fraction")>>), TInt),
                 \* (mappings of anything to anything: these may be written without type arguments)
                 TDict("dict", TS("any"), TS("any")), TDict("defaultdict", TS("any"), TS("any")), TDict("ordereddict", TS("any"), TS("any")),
                 \* (a fixed-member tuple as mapping key: what is written for it has to stay a key)
                 TDict("dict", TTuple(<<TInt, TInt>>), TStr) }

(* C02: the target kinds of the matrix *)
MatrixTargets ==
  { TS(k) : k \in ScalarKinds } \cup ExtraLeaves \cup
  { TSeq("list", TInt), TSeq("tuplevar", TStr), TSeq("set", TInt), TTuple(<<TInt, TStr>>),
    TDict("dict", TStr, TInt), TStruct(<< <<"s_a", TInt>> >>), ClsS(TInt), ClsT(TStr), ClsP(TStr),
    TCounter(TStr), TDict("defaultdict", TStr, TInt),
    \* a positional layout with a field that takes no position (init=False) before one that does
    TCls("KInitM", << Fld("s_a", TInt, NoDef), FldX("s_b", TStr, DefVal(MkStr("s_empty")), "F", <<"s_b">>, "s_b", "T", "F"),
                      Fld("s_c", TFloat, NoDef) >>, <<"struct", "tuple">>, "struct") }
(* C02: the embedding contexts *)
Contexts(T) ==
  { TSeq("list", T), TSeq("set", T), TDict("dict", TStr, T), TTuple(<<TStr, T>>), TUnion(<<T, TS("bytes")>>),
    TUnion(<<TS("bytes"), T>>), TOpt(T), TStruct(<< <<"s_a", T>> >>), ClsS(T), ClsP(T),
    \* the other spellings of "container element" and "mapping value"
    TDict("defaultdict", TStr, T), TDict("ordereddict", TStr, T), TSeq("deque", T), TSeq("tuplevar", T), TSeq("frozenset", T),
    TVol(T) }
  \cup (IF T.k \in KeyKinds THEN { TDict("dict", T, TInt) } ELSE {})

(* C12: tagged unions.  Variants V1 and V3 accept the same bodies; V2 differs in the type of y. *)
TagFld(tok) == Fld("s_kind", TLit(<<MkStr(tok)>>), DefVal(MkStr(tok)))
V1 == TCls("V1", << TagFld("s_v1"), Fld("s_y", TInt, DefVal(MkInt(6))) >>, <<"struct">>, "struct")
V2 == TCls("V2", << TagFld("s_v2"), Fld("s_y", TStr, DefVal(MkStr("s_a"))) >>, <<"struct">>, "struct")
V3 == TCls("V3", << TagFld("s_v3"), Fld("s_y", TInt, DefVal(MkInt(6))), Fld("s_z", TInt, DefVal(MkInt(7))) >>, <<"struct">>, "struct")
V4 == TCls("V4", << Fld("s_y", TInt, NoDef), TagFld("s_v1") >>, <<"struct", "tuple">>, "struct")
N1 == TCls("N1", << Fld("s_kind", TLit(<<MkInt(0)>>), DefVal(MkInt(0))), Fld("s_y", TInt, DefVal(MkInt(6))) >>, <<"struct">>, "struct")
N2 == TCls("N2", << Fld("s_kind", TLit(<<MkInt(2)>>), DefVal(MkInt(2))), Fld("s_y", TInt, DefVal(MkInt(6))) >>, <<"struct">>, "struct")
(* a variant that spells its tag field differently in data (field(rename='x')): the tag of an internally tagged union is   *)
(* read and written under the tag's own name all the same; the alias alone is no tag                                      *)
R1 == TCls("R1", << FldX("s_kind", TLit(<<MkStr("s_v1")>>), DefVal(MkStr("s_v1")), "F", <<"s_x">>, "s_x", "F", "T"),
                    Fld("s_y", TInt, DefVal(MkInt(6))) >>, <<"struct">>, "struct")
(* variants related by inheritance: VC is a subclass of VB (the concretiser derives it from VB's class) *)
VB == TCls("VB", << TagFld("s_v1"), Fld("s_y", TInt, DefVal(MkInt(6))) >>, <<"struct">>, "struct")
VC == [k |-> "cls", name |-> "VC", fs |-> << TagFld("s_v2"), Fld("s_y", TInt, DefVal(MkInt(6))), Fld("s_z", TInt, DefVal(MkInt(7))) >>,
       inf |-> <<"struct">>, outf |-> "struct", extra |-> "F", hook |-> NoHook, parent |-> VB]
TTagged(vs, lay) ==
  [k |-> "tagged", vars |-> vs, tag |-> "s_kind",
   tags |-> [i \in DOMAIN vs |-> FieldByName(vs[i], "s_kind").d.v], lay |-> lay, tk |-> "s_t", ck |-> "s_c"]
TaggedLeaves == { TTagged(vs, lay) : vs \in { <<V1, V2>>, <<V1, V2, V3>>, <<V3, V1>>, <<V4, V2>>, <<N1, N2>>, <<VB, VC>>, <<VC, VB>>, <<R1, V2>> },
                                     lay \in {"int", "ext", "adj"} }
                \* ... and under conditions (the shipped ListNotEmpty[...] is Annotated[List[...], len_range(min=1)])
                \cup { TAnn(TSeq("list", TTagged(<<V1, V2>>, lay)), <<[k |-> "lenge", n |-> 1]>>) : lay \in {"int", "ext", "adj"} }
                \cup { TAnn(TTagged(<<V1, V2>>, lay), <<[k |-> "utrue"]>>) : lay \in {"int", "ext", "adj"} }

(* C11: members that overlap *)
UPoolQ == { TInt, TFloat, TS("complex"), TS("bool"), TStr, TS("fraction"), TS("date"), TS("datetime"), TS("none"),
            TLit(<<MkInt(1), MkInt(2)>>), TLit(<<MkStr("s_a")>>), EnumS, EnumN, TAnn(TInt, <<[k |-> "pos"]>>), SubI,
            TSeq("list", TInt), TSeq("tuplevar", TInt), TTuple(<<TInt, TInt>>),
            ClsT(TInt), TCls("KB", << Fld("s_a", TInt, NoDef) >>, <<"struct", "tuple">>, "struct"),
            TStruct(<< <<"s_a", TInt>> >>) }
UPoolT == UPoolQ \cup { TTagged(<<V1, V2>>, "ext"), TTagged(<<V1, V2>>, "int"), TS("decimal"), TS("time"), TS("any"), TS("pattern"), TS("path"), EnumI, SubS, TOpt(TInt),
                        TDict("dict", TStr, TInt), TSeq("set", TInt) }
UnionLeaves(P) == { TUnion(<<a, b>>) : a, b \in P } \cup { TOpt(TTagged(<<V1, V2>>, lay)) : lay \in {"int", "ext", "adj"} }
                  \* a class and its subclass as members, in both orders (an instance of the subclass is an instance of both)
                  \cup { TUnion(<<VB, VC>>), TUnion(<<VC, VB>>) }
UnionNest(U) == { TUnion(<<U, m>>) : m \in {TStr, TFloat, TS("none")} } \cup { TUnion(<<m, U>>) : m \in {TStr, TInt} }
                \cup { TOpt(U), TSeq("list", U), TDict("dict", TStr, U), ClsS(U) }

(* C13: condition expressions *)
Q(n, d) == <<n, d>>
CBaseNum == { [k |-> "pos"], [k |-> "neg"], [k |-> "nonneg"], [k |-> "nonpos"], [k |-> "finite"],
              [k |-> "ge", q |-> Q(0, 1)], [k |-> "le", q |-> Q(1, 1)], [k |-> "ge", q |-> Q(3, 2)], [k |-> "le", q |-> Q(-1, 1)] }
CBaseLen == { [k |-> "empty"], [k |-> "nonempty"], [k |-> "lenge", n |-> 1], [k |-> "lenle", n |-> 2], [k |-> "lenge", n |-> 2] }
CBaseUser == { [k |-> "utrue"], [k |-> "ufalse"], [k |-> "uraise"], [k |-> "even"] }
CBase == CBaseNum \cup CBaseLen \cup CBaseUser
CComb(S) == { [k |-> "not", c |-> c] : c \in S }
            \cup { [k |-> "and", cs |-> <<a, b>>] : a, b \in S } \cup { [k |-> "or", cs |-> <<a, b>>] : a, b \in S }
CSmall == { [k |-> "pos"], [k |-> "neg"], [k |-> "finite"], [k |-> "le", q |-> Q(1, 1)], [k |-> "uraise"], [k |-> "ufalse"],
            [k |-> "lenge", n |-> 2], [k |-> "empty"] }
CNest == { [k |-> "or", cs |-> << [k |-> "and", cs |-> <<[k |-> "pos"], [k |-> "finite"]>>], [k |-> "neg"] >>],
           [k |-> "and", cs |-> << [k |-> "pos"], [k |-> "or", cs |-> <<[k |-> "finite"], [k |-> "neg"]>>] >>],
           [k |-> "not", c |-> [k |-> "and", cs |-> <<[k |-> "ge", q |-> Q(0, 1)], [k |-> "le", q |-> Q(1, 1)]>>]],
           [k |-> "and", cs |-> <<[k |-> "ge", q |-> Q(0, 1)], [k |-> "le", q |-> Q(1, 1)]>>],
           [k |-> "and", cs |-> <<[k |-> "lenge", n |-> 1], [k |-> "lenle", n |-> 2]>>] }
CondInnerQ == { TInt, TFloat, TS("fraction"), TSeq("set", TInt), TSeq("list", TInt), TStr, EnumI }
CondInnerT == CondInnerQ \cup { TS("complex"), TS("decimal"), TDict("dict", TStr, TInt), TOpt(TInt), TSeq("tuplevar", TFloat), TS("bytes") }
TNd(e) == [k |-> "ndarray", e |-> e]
NdConds == { [k |-> "shape", shape |-> <<2>>], [k |-> "shape", shape |-> <<2, 2>>], [k |-> "shape", shape |-> <<>>],
             [k |-> "bcast", shape |-> <<2, 2>>], [k |-> "bcast", shape |-> <<3>>], [k |-> "nonempty"], [k |-> "pos"],
             \* (zero-length axes broadcast against 1 and against a missing axis)
             [k |-> "bcast", shape |-> <<1>>], [k |-> "bcast", shape |-> <<2, 1>>], [k |-> "bcast", shape |-> <<0>>], [k |-> "bcast", shape |-> <<3, 0>>],
             [k |-> "not", c |-> [k |-> "shape", shape |-> <<2>>]] }
NdLeaves == { TAnn(TNd(e), <<c>>) : e \in {TInt, TFloat}, c \in NdConds } \cup { TNd(TInt), TNd(TFloat), TNd(TS("any")) }
             \cup { TAnn(TSeq("list", TInt), <<[k |-> "shape", shape |-> <<2>>]>>) }
CondLeaves(I, CS) == { TAnn(t, <<c>>) : t \in I, c \in CS }
                     \* a union under a condition, alone and as the element of a list (the same alias in a singular and a plural context)
                     \cup { TAnn(TUnion(<<TInt, TFloat>>), <<[k |-> "pos"]>>), TSeq("list", TAnn(TUnion(<<TInt, TFloat>>), <<[k |-> "pos"]>>)),
                            TAnn(TOpt(TStr), <<[k |-> "nonempty"]>>), TSeq("list", TAnn(TOpt(TStr), <<[k |-> "nonempty"]>>)) }
                     \cup { TAnn(t, <<[k |-> "nonneg"], c>>) : t \in {TInt, TFloat}, c \in CBaseNum \cup CBaseUser }

(* dataclass family: one class per feature of the layout / naming / default rules (C14, C15, and the
   class parts of C01, C03, C05, C06, C09) *)
TListI == TSeq("list", TInt)
KAlias == TCls("KAlias", << FldX("s_a", TInt, NoDef, "F", <<"s_a", "s_x">>, "s_a", "F", "T"),
                            Fld("s_b", TStr, DefVal(MkStr("s_b"))) >>, <<"struct", "tuple">>, "struct")
KInNames == TCls("KInNames", << FldX("s_a", TInt, NoDef, "F", <<"s_x", "s_y">>, "s_a", "F", "T"),
                                Fld("s_b", TInt, DefVal(MkInt(5))) >>, <<"struct">>, "struct")
KRenameF == TCls("KRenameF", << FldX("s_a", TInt, NoDef, "F", <<"s_x">>, "s_x", "F", "T"),
                                FldX("s_b", TFloat, DefVal(F15), "F", <<"s_b", "s_y">>, "s_y", "F", "T") >>, <<"struct">>, "struct")
KExcl == TCls("KExcl", << Fld("s_a", TInt, NoDef), FldX("s_b", TInt, DefVal(MkInt(5)), "F", <<"s_b">>, "s_b", "T", "T") >>,
              <<"struct", "tuple">>, "struct")
\* (fields are listed in effective order: keyword-only ones behind the positional ones; C17 derives that order)
\* tuple output with an excluded field that is not the last positional one (what is written shifts the later positions)
KExclT == TCls("KExclT", << Fld("s_a", TInt, NoDef), FldX("s_b", TInt, DefVal(MkInt(5)), "F", <<"s_b">>, "s_b", "T", "T"),
                            Fld("s_c", TStr, DefVal(MkStr("s_c"))) >>, <<"struct", "tuple">>, "tuple")
KKw == TCls("KKw", << Fld("s_a", TInt, NoDef), Fld("s_c", TStr, DefVal(MkStr("s_c"))),
                      FldX("s_b", TInt, DefVal(MkInt(5)), "T", <<"s_b">>, "s_b", "F", "T") >>, <<"struct", "tuple">>, "struct")
KInit == TCls("KInit", << Fld("s_a", TInt, NoDef), FldX("s_b", TStr, DefVal(MkStr("s_empty")), "F", <<"s_b">>, "s_b", "T", "F"),
                          Fld("s_c", TInt, NoDef) >>, <<"struct", "tuple">>, "struct")
KInitT == TCls("KInitT", << Fld("s_a", TInt, NoDef), FldX("s_b", TStr, DefVal(MkStr("s_empty")), "F", <<"s_b">>, "s_b", "T", "F"),
                            Fld("s_c", TFloat, NoDef) >>, <<"struct", "tuple">>, "tuple")
KInitFac == TCls("KInitFac", << Fld("s_a", TInt, NoDef), FldX("s_b", TListI, DefFac(MkList(<<>>)), "F", <<"s_b">>, "s_b", "T", "F"),
                                Fld("s_c", TInt, DefVal(MkInt(5))) >>, <<"struct", "tuple">>, "struct")
KFac == TCls("KFac", << Fld("s_a", TInt, NoDef), Fld("s_b", TListI, DefFac(MkList(<<>>))),
                        Fld("s_c", TSeq("set", TInt), DefFac([k |-> "set", f |-> "set", es |-> <<>>])) >>, <<"struct", "tuple">>, "struct")
KHook == [TCls("KHook", << Fld("s_a", TInt, NoDef), Fld("s_b", TInt, DefVal(MkInt(5))) >>, <<"struct", "tuple">>, "struct")
            EXCEPT !.hook = [k |-> "rejectif", f |-> "s_b", c |-> [k |-> "neg"]]]
(* a hook that looks at the record of explicitly set fields: s_b must not be given explicitly *)
KHookSet == [TCls("KHookSet", << Fld("s_a", TInt, NoDef), Fld("s_b", TInt, DefVal(MkInt(5))) >>, <<"struct", "tuple">>, "struct")
              EXCEPT !.hook = [k |-> "rejectifset", f |-> "s_b"]]
(* a subclass that inherits its __post_init__ (and the first two fields) from KHook and adds a field *)
KChild == [k |-> "cls", name |-> "KChild",
           fs |-> << Fld("s_a", TInt, NoDef), Fld("s_b", TInt, DefVal(MkInt(5))), Fld("s_c", TStr, DefVal(MkStr("s_c"))) >>,
           inf |-> <<"struct", "tuple">>, outf |-> "struct", extra |-> "F",
           hook |-> [k |-> "rejectif", f |-> "s_b", c |-> [k |-> "neg"]], parent |-> KHook]
KHookF == [TCls("KHookF", << Fld("s_a", TInt, NoDef), Fld("s_b", TListI, DefFac(MkList(<<>>))) >>, <<"struct", "tuple">>, "struct")
            EXCEPT !.hook = [k |-> "rejectif", f |-> "s_b", c |-> [k |-> "nonempty"]]]
KExtra == [TCls("KExtra", << Fld("s_a", TInt, NoDef), Fld("s_b", TInt, DefVal(MkInt(5))) >>, <<"struct">>, "struct")
            EXCEPT !.extra = "T"]
KTup == TCls("KTup", << Fld("s_a", TInt, NoDef), Fld("s_b", TStr, DefVal(MkStr("s_b"))) >>, <<"tuple">>, "tuple")
KTupKw == TCls("KTupKw", << Fld("s_a", TInt, NoDef), FldX("s_b", TInt, DefVal(MkInt(5)), "T", <<"s_b">>, "s_b", "F", "T") >>,
               <<"struct", "tuple">>, "tuple")
KNest == TCls("KNest", << Fld("s_a", KAlias, NoDef), Fld("s_b", TSeq("list", KTup), DefFac(MkList(<<>>))) >>, <<"struct", "tuple">>, "struct")
KOpt == TCls("KOpt", << Fld("s_a", TOpt(TInt), DefVal(MkInt(5))), Fld("s_b", TUnion(<<TInt, TStr>>), DefVal(MkInt(5))) >>,
             <<"struct", "tuple">>, "struct")
ClsLeaves == { KAlias, KInNames, KRenameF, KExcl, KExclT, KKw, KInit, KInitT, KInitFac, KFac, KHook, KChild, KHookSet, KHookF, KExtra, KTup, KTupKw, KNest, KOpt }

(* C15: the naming rules.  A class is written with a SPELLING (class-level rename styles, per-field    *)
(* rename / aliases / in_names / out_name) and the rules below derive each field's input names and    *)
(* output name from it (docs/using/dataclasses.md, pane.field): out name = field out_name, else field *)
(* rename, else the class out-style applied to the Python name, else the Python name; input names =   *)
(* (rename,), or (Python name, aliases..), or in_names as given, or the class in-styles applied to    *)
(* the Python name, or (Python name,).                                                                *)
StyleTok(style, tok) ==
  CASE tok = "s_ab_cd" -> (CASE style = "snake" -> "s_ab_cd" [] style = "camel" -> "s_abCd" [] style = "pascal" -> "s_AbCd"
                             [] style = "kebab" -> "s_ab_cd_k" [] style = "scream" -> "s_AB_CD")
    [] tok = "s_x" -> (IF style \in {"pascal", "scream"} THEN "s_X" ELSE "s_x")
NoFS == [k |-> "plain", to |-> "", names |-> <<>>, outname |-> ""]
NameIns(n, fsp, csp) ==
  CASE fsp.k = "rename"   -> <<fsp.to>>
    [] fsp.k = "aliases"  -> <<n>> \o fsp.names
    [] fsp.k = "in_names" -> fsp.names
    [] OTHER -> IF csp.ins = <<>> THEN <<n>> ELSE [i \in DOMAIN csp.ins |-> StyleTok(csp.ins[i], n)]
NameOut(n, fsp, csp) ==
  IF fsp.outname # "" THEN fsp.outname
  ELSE IF fsp.k = "rename" THEN fsp.to
  ELSE IF csp.out # "none" THEN StyleTok(csp.out, n) ELSE n
ClassSpells == { [how |-> "none", ins |-> <<>>, out |-> "none"] }
  \cup { [how |-> "rename", ins |-> <<st>>, out |-> st] : st \in {"camel", "pascal", "kebab", "scream"} }
  \cup { [how |-> "in_out", ins |-> <<"snake", "camel">>, out |-> "none"],
         [how |-> "in_out", ins |-> <<>>, out |-> "camel"],
         [how |-> "in_out", ins |-> <<"camel">>, out |-> "pascal"] }
FieldSpells == { NoFS, [NoFS EXCEPT !.k = "aliases", !.names = <<"s_w">>], [NoFS EXCEPT !.k = "in_names", !.names = <<"s_w", "s_v">>],
                 [NoFS EXCEPT !.k = "rename", !.to = "s_w"], [NoFS EXCEPT !.outname = "s_W"],
                 [NoFS EXCEPT !.k = "aliases", !.names = <<"s_w">>, !.outname = "s_w"] }
BModes == {"plain", "kw", "exclude"}
Layouts == { [inf |-> <<"struct">>, outf |-> "struct"], [inf |-> <<"struct", "tuple">>, outf |-> "struct"],
             [inf |-> <<"struct", "tuple">>, outf |-> "tuple"] }
NamedCls(csp, fsp, bmode, lay, extra) ==
  [k |-> "cls", name |-> "KN",
   fs |-> << FldX("s_ab_cd", TInt, NoDef, "F", NameIns("s_ab_cd", fsp, csp), NameOut("s_ab_cd", fsp, csp), "F", "T"),
             FldX("s_x", TStr, DefVal(MkStr("s_b")), IF bmode = "kw" THEN "T" ELSE "F",
                  NameIns("s_x", NoFS, csp), NameOut("s_x", NoFS, csp), IF bmode = "exclude" THEN "T" ELSE "F", "T") >>,
   inf |-> lay.inf, outf |-> lay.outf, extra |-> extra, hook |-> NoHook,
   spell |-> [cls |-> csp, flds |-> <<fsp, NoFS>>]]
NameLeaves == { NamedCls(csp, fsp, bm, lay, "F") : csp \in ClassSpells, fsp \in FieldSpells, bm \in BModes, lay \in Layouts }
              \cup { NamedCls(csp, fsp, "plain", lay, "T") : csp \in ClassSpells, fsp \in {NoFS, [NoFS EXCEPT !.k = "aliases", !.names = <<"s_w">>]}, lay \in Layouts }
NameLeavesAll == { NamedCls(csp, fsp, bm, lay, ex) : csp \in ClassSpells, fsp \in FieldSpells, bm \in BModes, lay \in Layouts, ex \in {"F", "T"} }

(* C19: JSON / YAML representable types (string keys, no bytes / complex), with awkward but legal texts *)
IOLeaves == { TStr, TInt, TFloat, TS("bool"), TS("none"), TS("date"), TS("fraction"), TS("decimal"), EnumS, LitIS,
              TSeq("list", TStr), TSeq("tuplevar", TFloat), TSeq("set", TInt), TDict("dict", TStr, TFloat), TDict("dict", TStr, TStr),
              TOpt(TStr), TTuple(<<TInt, TStr>>), KAlias, KTup, KNest, KOpt, KKw, KExcl,
              TCls("KStr", << Fld("s_a", TStr, NoDef), Fld("s_b", TSeq("list", TStr), DefFac(MkList(<<>>))) >>, <<"struct">>, "struct") }
(* C04: adversarial leaves *)
ClsHook(c) == [TCls("KH", << Fld("s_a", TInt, NoDef), Fld("s_b", TInt, DefVal(MkInt(5))) >>, <<"struct", "tuple">>, "struct")
                 EXCEPT !.hook = [k |-> "rejectif", f |-> "s_a", c |-> c]]
ExcLeaves ==
  { TS(k) : k \in {"fraction", "decimal", "date", "time", "datetime", "pattern", "patternb", "path", "int", "float", "complex"} }
  \cup { TSeq("set", TSeq("list", TInt)), TSeq("frozenset", TSeq("set", TInt)), TDict("dict", TSeq("list", TInt), TInt),
         TDict("dict", TSeq("tuplevar", TSeq("list", TInt)), TInt), TDict("dict", TS("fraction"), TInt),
         TCounter(TSeq("list", TInt)), TSeq("set", TS("bytearray")), TDict("dict", TS("any"), TInt), TSeq("set", TS("any")),
         TAnn(TInt, <<[k |-> "uraise"]>>), TAnn(TStr, <<[k |-> "pos"]>>), TAnn(TSeq("list", TInt), <<[k |-> "finite"]>>),
         ClsHook([k |-> "uraise"]), ClsHook([k |-> "neg"]), ClsHook([k |-> "utrue"]),
         TEnum("Mixed", <<MkInt(1), MkStr("s_a")>>), EnumS, SubI, SubS,
         TEnum("PairE", <<MkTuple(<<MkInt(1), MkInt(2)>>), MkStr("s_a")>>), TEnum("PairsE", <<MkTuple(<<MkInt(1), MkInt(2)>>), MkTuple(<<MkInt(2), MkInt(1)>>)>>) }

(* shipped helper types (pane.types): Range, ValueOrList, alone and as members of each other *)
ShippedLeaves == { RangeCls(TInt), RangeCls(TFloat), TVol(TInt), TVol(TStr), TVol(TS("any")), TVol(TSeq("list", TInt)),
                   TVol(RangeCls(TInt)), TVol(TOpt(TInt)), TVol(TS("fraction")), TVol(KAlias),
                   \* the same members in both orders (typing compares Union types without regard to order; pane must not)
                   TVol(TUnion(<<TS("bytearray"), TS("bytes")>>)), TVol(TUnion(<<TS("bytes"), TS("bytearray")>>)),
                   TVol(TUnion(<<TInt, TFloat>>)), TVol(TUnion(<<TFloat, TInt>>)) }

LeafKinds ==
  CASE Focus = "core"   -> {"none", "bool", "int", "float", "complex", "str", "bytes", "any"}
    [] Focus = "scalar" -> ScalarKinds
    [] OTHER -> {"int", "str"}
Leaves ==
  CASE Focus \in {"core", "scalar"} -> { TS(k) : k \in LeafKinds } \cup ExtraLeaves
    [] Focus = "matrix"  -> MatrixTargets
    [] Focus = "unionq"  -> UnionLeaves(UPoolQ)
    [] Focus = "uniont"  -> UnionLeaves(UPoolT)
    [] Focus = "condq"   -> CondLeaves(CondInnerQ, CBase \cup CComb(CSmall) \cup CNest) \cup NdLeaves
    [] Focus = "condt"   -> CondLeaves(CondInnerT, CBase \cup CComb(CBase) \cup CNest) \cup NdLeaves
    [] Focus = "exc"     -> ExcLeaves \cup { TTagged(<<V1, V2>>, lay) : lay \in {"int", "ext", "adj"} }
    [] Focus = "tagged"  -> TaggedLeaves
    [] Focus = "cls"     -> ClsLeaves
    [] Focus = "construct" -> ClsLeaves
    [] Focus = "names"   -> NameLeaves
    [] Focus = "io"      -> IOLeaves
    [] Focus = "namesall" -> NameLeavesAll
    [] Focus = "shipped" -> ShippedLeaves

Wrap(T) ==
  { TSeq(k, T) : k \in SeqKinds }
  \cup { TTuple(<<T>>), TTuple(<<T, TInt>>), TTuple(<<TStr, T>>) }
  \cup { TDict(k, TStr, T) : k \in {"dict", "defaultdict", "ordereddict"} }
  \cup (IF T.k \in KeyKinds THEN { TDict("dict", T, TInt), TCounter(T) } ELSE {})
  \cup { TStruct(<< <<"s_a", T>> >>), TStruct(<< <<"s_a", TInt>>, <<"s_b", T>> >>) }
  \cup { TUnion(<<T, TStr>>), TUnion(<<TS("none"), T>>), TUnion(<<TInt, T>>), TOpt(T) }
  \cup { TCls("K1", << Fld("s_a", T, NoDef), Fld("s_b", TInt, DefVal(MkInt(5))) >>, <<"struct", "tuple">>, "struct") }

(* a representative of each family of embedding context, for the outer levels of the quick tier *)
WrapFew(T) ==
  { TSeq("list", T), TDict("dict", TStr, T), TTuple(<<TStr, T>>), TUnion(<<TS("none"), T>>),
    TCls("K1", << Fld("s_a", T, NoDef), Fld("s_b", TInt, DefVal(MkInt(5))) >>, <<"struct", "tuple">>, "struct") }

WrapOf(T, d) ==
  CASE Focus = "matrix" -> Contexts(T)
    [] Focus \in {"unionq", "uniont"} -> UnionNest(T)
    [] Focus \in {"condq", "condt", "exc", "tagged", "cls", "names", "namesall", "io", "shipped"} -> WrapFew(T)
    [] OTHER -> IF d = 0 \/ OuterWrap = "all" THEN Wrap(T) ELSE WrapFew(T)

(* C14: constructions of a class: which init fields are supplied, how many of them positionally, *)
(* through which constructor, with one supplied value possibly needing conversion / invalid     *)
InitIdx(C) == {j \in DOMAIN C.fs : C.fs[j].init = "T"}
SeqOfSet(S) == SelectSeq([j \in 1..20 |-> j], LAMBDA j : j \in S)
LeadingPos(C, S) ==   \* how many members of S (in field order) are the first positional init fields
  LET pos == SelectSeq([j \in DOMAIN C.fs |-> j], LAMBDA j : C.fs[j].kw = "F" /\ C.fs[j].init = "T")
      ss == SeqOfSet(S) IN
  Cardinality({n \in DOMAIN ss : n <= Len(pos) /\ \A m \in 1..n : ss[m] = pos[m]})
Constructions(C) ==
  UNION { UNION { { [k |-> "construction", path |-> p, posn |-> n,
                     sup |-> [i \in DOMAIN SeqOfSet(S) |->
                                <<SeqOfSet(S)[i], IF SeqOfSet(S)[i] = odd THEN ov ELSE Pick1(Members(C.fs[SeqOfSet(S)[i]].t))>>]]
                    : p \in {"ctor", "unchecked"}, n \in 0..LeadingPos(C, S) }
                  : odd \in S \cup {0}, ov \in {MkStr("s_zz"), MkInt(1), MkTuple(<<MkInt(1)>>), F20} }
          : S \in SUBSET InitIdx(C) }

Init == /\ ph = "grow" /\ dep = 0 /\ ty \in Leaves /\ val = MkNone
Grow == /\ ph = "grow" /\ dep < MaxDepth /\ Focus # "construct"
        /\ ty' \in WrapOf(ty, dep)
        /\ dep' = dep + 1 /\ UNCHANGED <<val, ph>>
PickValue == /\ ph = "grow" /\ ph' = "case"
             /\ val' \in Gen(ty) /\ UNCHANGED <<ty, dep>>
PickConstruction == /\ Focus = "construct" /\ ph = "grow" /\ ty.k = "cls" /\ ph' = "ctor"
                    /\ val' \in Constructions(ty) /\ UNCHANGED <<ty, dep>>
Next == Grow \/ PickValue \/ PickConstruction
Spec == Init /\ [][Next]_vars

-----------------------------------------------------------------------------
(* Laws of the semantics, evaluated on every case state.                   *)
IsCase == ph = "case"

(* the verdict is one of the three values, and every generated member is not rejected *)
VerdictTotal == IsCase => Verdict(ty, val) \in {"A", "R", "D"}
(* generated members are accepted unless the type asks for the impossible (a set of unhashable
   images, Set[List[int]]): a vacuity guard for the generator, for the scalar and sequence leaves *)
MembersNotRejected == (ph = "grow" /\ dep = 0) => \A m \in Members(ty) : Verdict(ty, m) # "R"

(* an accepted value has an image, the image serialises to data that is accepted again    *)
(* with the same image (C05/C06 as a law of Sem, where the serialised form is computable) *)
ImgDefined == (IsCase /\ Verdict(ty, val) = "A") => Img(ty, val).k \in STRING

(* C11: a union accepts iff some member does not reject, flattening does not matter *)
UnionLaw ==
  (IsCase /\ ty.k = "union") =>
     /\ (Verdict(ty, val) = "R") = (\A i \in DOMAIN ty.alts : Verdict(ty.alts[i], val) = "R")
     /\ (Verdict(ty, val) = "A") => \E i \in DOMAIN ty.alts :
            /\ Verdict(ty.alts[i], val) = "A" /\ Img(ty, val) = Img(ty.alts[i], val)
            /\ \A j \in 1..(i - 1) : Verdict(ty.alts[j], val) = "R"
=============================================================================
