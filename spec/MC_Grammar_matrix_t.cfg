SPECIFICATION Spec
CONSTANTS
  StrFacts <- LoadedFacts
  MaxDepth = 2
  Focus = "matrix"
  OuterWrap = "few"
INVARIANT VerdictTotal
INVARIANT ImgDefined
INVARIANT UnionLaw
CHECK_DEADLOCK FALSE
