------------------------- MODULE PaneHandlersTrace -------------------------
EXTENDS PaneHandlers, Json, IOUtils
Events == ndJsonDeserialize(IOEnv.PANE_TRACE)
VARIABLES l, bad
Range(s) == {s[i] : i \in DOMAIN s}
CfgOf(e) == [present |-> Range(e.present), defer |-> Range(e.defer), form |-> e.form, target |-> e.target,
             shape |-> e.shape, dir |-> e.dir, inh |-> e.inh]
Fails(e) == LET want == Resolve(CfgOf(e)) IN
            IF e.got = want THEN {}
            ELSE IF want = "none" THEN {"unconvertible-type-not-refused"}
            ELSE {"wrong-converter-used"}
TraceInit == l = 1 /\ bad = {} /\ cfg = [present |-> {}, defer |-> {}, form |-> "callable", target |-> "scalar", shape |-> "field", dir |-> "from", inh |-> "F"]
TraceNext == /\ l <= Len(Events) /\ l' = l + 1 /\ UNCHANGED cfg
             /\ bad' = bad \cup {<<Events[l].id, c>> : c \in Fails(Events[l])}
TraceSpec == TraceInit /\ [][TraceNext]_<<l, bad, cfg>>
Report == (l = Len(Events) + 1) => PrintT(<<"BAD", bad>>)
TraceAccepted == TLCGet("stats").diameter - 1 = Len(Events)
=============================================================================
