SPECIFICATION TraceSpec
INVARIANT Report
POSTCONDITION TraceAccepted
CHECK_DEADLOCK FALSE
