-------------------------------- MODULE PaneIO --------------------------------
(***************************************************************************)
(* C19: JSON / YAML writers and readers: who opens and closes what, and    *)
(* that what is written reads back.                                        *)
(*                                                                         *)
(* Sinks / sources: a path given as pathlib.Path or as str (the library    *)
(* opens it - UTF-8 - and closes it), a text stream supplied by the caller *)
(* (StringIO or a real text file object: left open), the string returned   *)
(* by the dataclass methods.                                               *)
(*                                                                         *)
(* State: what each store holds (a sequence of documents, each an abstract *)
(* value id), which caller streams exist and whether they are open, the    *)
(* handles the library has opened.  A write to a path replaces the file; a *)
(* write to a caller stream appends a document (this is how multi-document *)
(* YAML is produced); read returns the single document, read_all all.      *)
(***************************************************************************)
EXTENDS Integers, Sequences, FiniteSets, TLC

CONSTANTS ValIds, MaxOps

Stores == {"path", "strpath", "stringio", "textfile"}
CallerStores == {"stringio", "textfile"}
Fmts == {"json", "yaml"}

VARIABLES docs,        \* store -> <<value ids>> and the format they were written in
          fmtOf, callerOpen, libHandles, last, nops
iovars == <<docs, fmtOf, callerOpen, libHandles, last, nops>>

IOInit == /\ docs = [s \in Stores |-> <<>>] /\ fmtOf = [s \in Stores |-> "none"]
          /\ callerOpen = [s \in CallerStores |-> TRUE]
          /\ libHandles = <<>>            \* log of [enc, closed] for every handle the library opened
          /\ last = [k |-> "none"] /\ nops = 0

LibOpenClose(s) == IF s \in CallerStores THEN libHandles ELSE Append(libHandles, [enc |-> "utf-8", closed |-> TRUE])

Write(s, f, v) ==
  /\ nops < MaxOps /\ (s \in CallerStores => callerOpen[s])
  /\ (fmtOf[s] \in {"none", f})
  /\ (f = "json" => (s \notin CallerStores \/ docs[s] = <<>>))       \* one JSON document per stream
  /\ docs' = [docs EXCEPT ![s] = IF s \in CallerStores THEN Append(@, v) ELSE <<v>>]
  /\ fmtOf' = [fmtOf EXCEPT ![s] = f]
  /\ libHandles' = LibOpenClose(s)
  /\ last' = [k |-> "write", s |-> s, f |-> f, v |-> v]
  /\ nops' = nops + 1 /\ UNCHANGED callerOpen
Read(s) ==
  /\ nops < MaxOps /\ Len(docs[s]) = 1 /\ (s \in CallerStores => callerOpen[s])
  /\ libHandles' = LibOpenClose(s)
  /\ last' = [k |-> "read", s |-> s, f |-> fmtOf[s], got |-> docs[s][1]]
  /\ nops' = nops + 1 /\ UNCHANGED <<docs, fmtOf, callerOpen>>
ReadAll(s) ==
  /\ nops < MaxOps /\ fmtOf[s] = "yaml" /\ (s \in CallerStores => callerOpen[s])
  /\ libHandles' = LibOpenClose(s)
  /\ last' = [k |-> "readall", s |-> s, f |-> "yaml", gots |-> docs[s]]
  /\ nops' = nops + 1 /\ UNCHANGED <<docs, fmtOf, callerOpen>>
IONext == \/ \E s \in Stores, f \in Fmts, v \in ValIds : Write(s, f, v)
          \/ \E s \in Stores : Read(s) \/ ReadAll(s)
IOSpec == IOInit /\ [][IONext]_iovars

(* ownership: between calls nothing the library opened is still open, everything it opened was UTF-8, *)
(* and it never closes what the caller supplied                                                       *)
LibHandlesClosed == \A i \in DOMAIN libHandles : libHandles[i].closed /\ libHandles[i].enc = "utf-8"
CallerStreamsOpen == \A s \in CallerStores : callerOpen[s]
ReadAllOnePerDocument == last.k = "readall" => Len(last.gots) = Len(docs[last.s])

-----------------------------------------------------------------------------
(* the formatting options the statement names, as records; None = "none" *)
JsonOpts == [indent : {"none", "2", "tab"}, sort_keys : {"T", "F"}]
YamlOpts == [indent : {"none", "4"}, width : {"none", "20"}, allow_unicode : {"T", "F"}, explicit_start : {"T", "F"},
             explicit_end : {"T", "F"}, default_style : {"none", "dq", "lit", "fold"}, default_flow_style : {"none", "T", "F"},
             sort_keys : {"T", "F"}]
=============================================================================
