SPECIFICATION Spec
CONSTANTS
  StrFacts <- LoadedFacts
  MaxDepth = 1
  Focus = "tagged"
  OuterWrap = "few"
INVARIANT VerdictTotal
INVARIANT ImgDefined
INVARIANT UnionLaw
CHECK_DEADLOCK FALSE
