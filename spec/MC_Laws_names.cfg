SPECIFICATION Spec
CONSTANTS
  StrFacts <- LoadedFacts
  MaxDepth = 0
  Focus = "names"
  OuterWrap = "few"
INVARIANT VerdictTotal
INVARIANT ImgDefined
CHECK_DEADLOCK FALSE
