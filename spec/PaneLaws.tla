------------------------------ MODULE PaneLaws ------------------------------
(***************************************************************************)
(* Laws of the REQUIRED semantics itself, checked by TLC on every state of *)
(* the grammar graph (no code involved): does PaneSem, taken alone, admit  *)
(* the round trip that C05 / C06 ask of the library?                       *)
(*                                                                         *)
(* SerV(T, v) is the canonical serialised form of Img(T, v): written along *)
(* the same structure as Img (so that a union is written by the member     *)
(* that read the value, a dataclass by its layout and output names).       *)
(*   SerConsistent : the canonical form satisfies the relational SerOK     *)
(*   RoundTripLaw  : reading the canonical form back is accepted and gives *)
(*                   the same image (Python equality: set-field records    *)
(*                   and excluded fields aside)                            *)
(* Where the semantics itself cannot round-trip - the design-level reading *)
(* of known findings F16, F19, F21, F28, F40 - the law names the gap       *)
(* (DesignGap) instead of failing; every other state must satisfy it.      *)
(***************************************************************************)
EXTENDS PaneGrammar

NoSer == [k |-> "noser"]
RECURSIVE HasNoSer(_)
HasNoSer(d) ==
  CASE d.k = "noser" -> TRUE
    [] d.k = "seq" -> \E i \in DOMAIN d.xs : HasNoSer(d.xs[i])
    [] d.k = "map" -> \E i \in DOMAIN d.ps : HasNoSer(d.ps[i][1]) \/ HasNoSer(d.ps[i][2])
    [] OTHER -> FALSE

TokFor(P(_)) == LET S == {tok \in DOMAIN StrFacts : P(tok)} IN IF S = {} THEN NoSer ELSE MkStr(CHOOSE tok \in S : TRUE)

(* a typed value that sits in a field without having been read from data (a default, or what a hook derived) *)
RECURSIVE SerD(_)
SerD(x) ==
  CASE x.k \in AtomKinds -> x
    [] x.k = "seq" -> MkList([i \in DOMAIN x.xs |-> SerD(x.xs[i])])
    [] x.k = "set" -> IF x.es = {} THEN MkList(<<>>) ELSE NoSer
    [] x.k = "map" -> MkDict([i \in DOMAIN x.ps |-> <<SerD(x.ps[i][1]), SerD(x.ps[i][2])>>])
    [] OTHER -> NoSer

RECURSIVE SerV(_, _)
SerV(T, v) ==
  CASE T.k \in {"none", "bool", "int", "float", "complex", "str", "bytes", "bytearray", "any"} -> ScalarImg(T.k, v)
    [] T.k = "decimal"  -> LET x == ScalarImg("decimal", v) IN TokFor(LAMBDA tok : Fact(tok).dec = [q |-> x.q, sp |-> x.sp])
    [] T.k = "fraction" -> LET x == ScalarImg("fraction", v) IN TokFor(LAMBDA tok : Fact(tok).fr = x.q)
    [] T.k \in {"date", "time", "datetime", "path"} -> MkStr(ScalarImg(T.k, v).s)
    [] T.k = "pattern"  -> MkStr(v.s)
    [] T.k = "patternb" -> MkBytes(v.s)
    [] T.k = "lit"  -> v
    [] T.k = "enum" -> T.vs[Img(T, v).i]
    [] T.k \in {"list", "tuplevar", "deque", "tuple"} ->
         MkList([i \in DOMAIN v.xs |-> SerV(IF T.k = "tuple" THEN T.es[i] ELSE T.e, v.xs[i])])
    [] T.k \in {"set", "frozenset"} ->      \* each distinct image once, in order of first occurrence
         LET firsts == SelectSeq([i \in DOMAIN v.xs |-> i], LAMBDA i : \A j \in 1..(i - 1) : Img(T.e, v.xs[j]) # Img(T.e, v.xs[i])) IN
         MkList([n \in DOMAIN firsts |-> SerV(T.e, v.xs[firsts[n]])])
    [] T.k \in {"dict", "defaultdict", "ordereddict"} ->
         MkDict([i \in DOMAIN v.ps |-> <<SerV(T.kt, v.ps[i][1]), SerV(T.vt, v.ps[i][2])>>])
    [] T.k = "counter" -> MkDict([i \in DOMAIN v.ps |-> <<SerV(T.kt, v.ps[i][1]), v.ps[i][2]>>])
    [] T.k = "struct" ->
         LET ftype(n) == T.fs[CHOOSE j \in DOMAIN T.fs : T.fs[j][1] = n][2] IN
         MkDict([i \in DOMAIN v.ps |-> <<v.ps[i][1], SerV(ftype(v.ps[i][1].s), v.ps[i][2])>>])
    [] T.k = "union" -> SerV(T.alts[UnionPick(T.alts, v, 1)[1]], v)
    [] T.k = "ann"   -> SerV(T.t, v)
    [] T.k = "sub"   -> SerV(T.base, v)
    [] T.k = "tvar"  -> (CASE T.var = "free" -> v [] T.var = "bound" -> SerV(T.ts[1], v)
                           [] T.var = "constr" -> SerV(T.ts[UnionPick(T.ts, v, 1)[1]], v))
    [] T.k = "vol"   -> SerV(VolAlts(T)[UnionPick(VolAlts(T), v, 1)[1]], v)
    [] T.k = "tagged" ->
         LET te == TagExtract(T, v)
             i == TagVariant(T, te.tag)
             body == SerV(T.vars[i], te.body) IN
         (CASE T.lay = "int" ->                   \* the variant's own form, the tag under the tag's name
                 LET o == TagOutName(T.vars[i], T.tag) IN
                 IF body.k = "map" /\ o # T.tag
                 THEN [body EXCEPT !.ps = [j \in DOMAIN body.ps |-> IF body.ps[j][1] = MkStr(o) THEN <<MkStr(T.tag), body.ps[j][2]>> ELSE body.ps[j]]]
                 ELSE body
            [] T.lay = "ext" -> MkDict(<< <<T.tags[i], body>> >>)
            [] T.lay = "adj" -> MkDict(<< <<MkStr(T.tk), T.tags[i]>>, <<MkStr(T.ck), body>> >>))
    [] T.k = "cls" ->
         LET ci == ClsImg(T, v)
             b == IF IsMapV(v) THEN BindMap(T, v) ELSE [bound |-> {}, known |-> {}, idx |-> <<>>]
             n == IF IsSeqV(v) THEN Len(v.xs) ELSE 0
             pidx(j) == IF T.fs[j].kw = "T" \/ ~IsInit(T.fs[j]) THEN 0
                        ELSE Cardinality({i \in 1..j : T.fs[i].kw = "F" /\ IsInit(T.fs[i])})
             fromdata(j) == IF IsMapV(v) THEN j \in b.bound ELSE pidx(j) # 0 /\ pidx(j) <= n
             datum(j) == IF IsMapV(v) THEN v.ps[CHOOSE i \in b.known : b.idx[i] = j][2] ELSE v.xs[pidx(j)]
             fval(j) == IF fromdata(j) /\ HookVals(T, ci.fv) = ClsImgRaw(T, v).fv THEN SerV(T.fs[j].t, datum(j))
                        ELSE IF fromdata(j) /\ ci.fv[j] = ClsImgRaw(T, v).fv[j] THEN SerV(T.fs[j].t, datum(j))
                        ELSE SerD(ci.fv[j])
             outs == SelectSeq([j \in DOMAIN T.fs |-> j], LAMBDA j : T.fs[j].ex = "F") IN
         IF T.outf = "struct"
         THEN MkDict([m \in DOMAIN outs |-> <<MkStr(T.fs[outs[m]].out), fval(outs[m])>>])
         ELSE MkTuple([m \in DOMAIN outs |-> fval(outs[m])])
    [] OTHER -> NoSer

-----------------------------------------------------------------------------
(* where the semantics itself does not round-trip (design-level reading of the known findings) *)
RECURSIVE ShadowInside(_, _), TupleOutGap(_), KeyHoldsSet(_)
UnionShadow0(T, v) ==
  LET m == UnionPick(T.alts, v, 1)[1]
      d == SerV(T.alts[m], v) IN
  m > 1 /\ ~HasNoSer(d) /\ \E j \in 1..(m - 1) : Verdict(T.alts[j], d) # "R"

(* F21: somewhere inside, an untagged union reads a value by a later member while an earlier member also   *)
(* accepts what that member writes                                                                          *)
ShadowInside(T, v) ==
  CASE T.k = "union" -> UnionShadow0(T, v) \/ ShadowInside(T.alts[UnionPick(T.alts, v, 1)[1]], v)
    [] T.k \in SeqKinds -> \E i \in DOMAIN v.xs : ShadowInside(T.e, v.xs[i])
    [] T.k = "tuple" -> \E i \in DOMAIN v.xs : ShadowInside(T.es[i], v.xs[i])
    [] T.k \in {"dict", "defaultdict", "ordereddict"} -> \E i \in DOMAIN v.ps : ShadowInside(T.kt, v.ps[i][1]) \/ ShadowInside(T.vt, v.ps[i][2])
    [] T.k = "counter" -> \E i \in DOMAIN v.ps : ShadowInside(T.kt, v.ps[i][1])
    [] T.k = "struct" -> \E i \in DOMAIN v.ps : ShadowInside(T.fs[CHOOSE j \in DOMAIN T.fs : T.fs[j][1] = v.ps[i][1].s][2], v.ps[i][2])
    [] T.k \in {"ann"} -> ShadowInside(T.t, v)
    [] T.k = "sub" -> ShadowInside(T.base, v)
    [] T.k = "vol" -> LET p == UnionPick(VolAlts(T), v, 1)[1] IN
                      (p = 2 /\ Verdict(T.e, SerV(VolAlts(T)[2], v)) # "R") \/ ShadowInside(VolAlts(T)[p], v)
    [] T.k = "tagged" -> LET te == TagExtract(T, v) IN ShadowInside(T.vars[TagVariant(T, te.tag)], te.body)
    [] T.k = "cls" ->
         IF IsMapV(v) THEN LET b == BindMap(T, v) IN \E i \in b.known : ShadowInside(T.fs[b.idx[i]].t, v.ps[i][2])
         ELSE LET pos == PosFields(T) IN \E i \in DOMAIN v.xs : ShadowInside(pos[i].t, v.xs[i])
    [] OTHER -> FALSE
(* F16 / F40: a class written as a tuple whose positions are not the positional input fields *)
TupleOutGap(T) ==
  CASE T.k = "cls" ->
         \/ (T.outf = "tuple" /\ LET outs == SelectSeq(T.fs, LAMBDA f : f.ex = "F") IN outs # PosFields(T))
         \/ \E j \in DOMAIN T.fs : TupleOutGap(T.fs[j].t)
    [] T.k \in SeqKinds -> TupleOutGap(T.e)
    [] T.k = "tuple" -> \E i \in DOMAIN T.es : TupleOutGap(T.es[i])
    [] T.k \in {"dict", "defaultdict", "ordereddict"} -> TupleOutGap(T.kt) \/ TupleOutGap(T.vt)
    [] T.k = "struct" -> \E i \in DOMAIN T.fs : TupleOutGap(T.fs[i][2])
    [] T.k = "union" -> \E i \in DOMAIN T.alts : TupleOutGap(T.alts[i])
    [] T.k = "ann" -> TupleOutGap(T.t)
    [] T.k = "vol" -> TupleOutGap(T.e)
    [] T.k = "tagged" -> \E i \in DOMAIN T.vars : TupleOutGap(T.vars[i])
    [] OTHER -> FALSE
(* F28: a mapping whose key type holds a set (written as a list, which is no key) *)
RECURSIVE HoldsSet(_)
HoldsSet(T) == CASE T.k \in {"set", "frozenset"} -> TRUE [] T.k \in {"list", "tuplevar", "deque"} -> HoldsSet(T.e)
                 [] T.k = "tuple" -> \E i \in DOMAIN T.es : HoldsSet(T.es[i]) [] T.k = "union" -> \E i \in DOMAIN T.alts : HoldsSet(T.alts[i])
                 [] T.k = "ann" -> HoldsSet(T.t) [] OTHER -> FALSE
KeyHoldsSet(T) ==
  CASE T.k \in {"dict", "defaultdict", "ordereddict", "counter"} -> HoldsSet(T.kt) \/ KeyHoldsSet(T.kt) \/ (T.k # "counter" /\ KeyHoldsSet(T.vt))
    [] T.k \in SeqKinds -> KeyHoldsSet(T.e)
    [] T.k = "tuple" -> \E i \in DOMAIN T.es : KeyHoldsSet(T.es[i])
    [] T.k = "struct" -> \E i \in DOMAIN T.fs : KeyHoldsSet(T.fs[i][2])
    [] T.k = "union" -> \E i \in DOMAIN T.alts : KeyHoldsSet(T.alts[i])
    [] T.k = "ann" -> KeyHoldsSet(T.t)
    [] T.k = "vol" -> KeyHoldsSet(T.e)
    [] T.k = "cls" -> \E j \in DOMAIN T.fs : KeyHoldsSet(T.fs[j].t)
    [] T.k = "tagged" -> \E i \in DOMAIN T.vars : KeyHoldsSet(T.vars[i])
    [] OTHER -> FALSE
(* F19: the shipped Range writes the derived field as well *)
RECURSIVE HasRange(_)
HasRange(T) ==
  CASE T.k = "cls" -> T.hook.k = "rangehook" \/ \E j \in DOMAIN T.fs : HasRange(T.fs[j].t)
    [] T.k \in SeqKinds -> HasRange(T.e)
    [] T.k = "tuple" -> \E i \in DOMAIN T.es : HasRange(T.es[i])
    [] T.k \in {"dict", "defaultdict", "ordereddict"} -> HasRange(T.vt)
    [] T.k = "struct" -> \E i \in DOMAIN T.fs : HasRange(T.fs[i][2])
    [] T.k = "union" -> \E i \in DOMAIN T.alts : HasRange(T.alts[i])
    [] T.k \in {"ann", "vol"} -> HasRange(IF T.k = "ann" THEN T.t ELSE T.e)
    [] OTHER -> FALSE

DesignGap(T, v) == ShadowInside(T, v) \/ TupleOutGap(T) \/ KeyHoldsSet(T) \/ HasRange(T)

Applies == IsCase /\ Verdict(ty, val) = "A" /\ OutEnabled(ty) /\ StdVal(Img(ty, val)) /\ ty.k # "ndarray"
SerConsistent ==
  Applies => LET d == SerV(ty, val) IN HasNoSer(d) \/ KeyHoldsSet(ty) \/ (IsData(d) /\ SerOK(ty, Img(ty, val), d))
RoundTripLaw ==
  Applies => LET d == SerV(ty, val) IN
             \/ HasNoSer(d) \/ DesignGap(ty, val)
             \/ /\ Verdict(ty, d) # "R"
                /\ Verdict(ty, d) = "A" => StripX(Img(ty, d), ExSet(ty)) = StripX(Img(ty, val), ExSet(ty))
(* Cross-checks (each of these MUST be violated: the harness treats "no error" as a failure of the machinery): *)
(* the law without the named gaps does not hold, and each gap is reached on a state to which the law applies.  *)
RoundTripLawStrict ==
  Applies => LET d == SerV(ty, val) IN
             \/ HasNoSer(d)
             \/ /\ Verdict(ty, d) # "R"
                /\ Verdict(ty, d) = "A" => StripX(Img(ty, d), ExSet(ty)) = StripX(Img(ty, val), ExSet(ty))
NoShadowGap == ~(Applies /\ ShadowInside(ty, val) /\ ~HasNoSer(SerV(ty, val)))
NoTupleGap  == ~(Applies /\ TupleOutGap(ty) /\ ~HasNoSer(SerV(ty, val)))
NoRangeGap  == ~(Applies /\ HasRange(ty) /\ ~HasNoSer(SerV(ty, val)))
(* and the law is not vacuous: a state to which it applies with a canonical form and outside every gap is reached *)
NeverJudged == ~(Applies /\ ~HasNoSer(SerV(ty, val)) /\ ~DesignGap(ty, val))
=============================================================================
