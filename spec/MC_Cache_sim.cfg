SPECIFICATION CSpec
CONSTANTS
  Addr = {1, 2}
  Desc = {"ListStr", "DictStrFloat", "TupIntStr", "ListMy", "ListUIF", "ListUFI", "ListLitFloat", "ClsCamel", "InnerG", "OuterH1"}
  HS = {"h0", "h1"}
  Threads = {1, 2}
  PinKeyArgs = FALSE
  MaxLevel = 40
CONSTRAINT Bounded


CHECK_DEADLOCK FALSE
