SPECIFICATION CSpec
CONSTANTS
  Addr = {1, 2}
  Desc = {"ListStr", "DictStrFloat", "TupIntStr", "ListMy", "ListUIF", "ListUFI", "ListLitFloat", "ClsCamel", "InnerG", "OuterH1", "MyListR"}
  HS = {"h0", "h1"}
  Threads = {1, 2}
  PinKeyArgs = FALSE
  MaxReg = 1
  RegDesign = "keyed"
  MaxLevel = 40
CONSTRAINT Bounded


CHECK_DEADLOCK FALSE
