-------------------------- MODULE PaneRenameTrace --------------------------
(* Trace validation for C20: results recorded from pane.field.rename_field (and from the     *)
(* keys written by classes with rename options) against the specification Canon.             *)
EXTENDS PaneRename, Json, IOUtils

Events == ndJsonDeserialize(IOEnv.PANE_TRACE)
VARIABLES l, bad
tvars == <<l, bad>>

IsLetter(c) == c < 200
(* the property's domain: lowercase alphabetic words of >= 2 letters joined by single underscores *)
IsSnakeName(n) ==
  LET w == SnakeWords(n) IN
  /\ n # <<>> /\ \A i \in DOMAIN n : n[i] = US \/ IsLow(n[i])
  /\ \A i \in DOMAIN w : Len(w[i]) >= 2
(* cannot be split into words: leading, trailing or doubled separators *)
Unsplittable(n) ==
  /\ \A i \in DOMAIN n : n[i] \in {US, DASH} \/ IsLetter(n[i])
  /\ \E i \in DOMAIN SplitOn(n, {US, DASH}, <<>>) : SplitOn(n, {US, DASH}, <<>>)[i] = <<>>

RenameFails(e) ==
  IF Unsplittable(e.name)
  THEN (IF e.out.k = "exc" /\ e.out.c = "ValueError" THEN {} ELSE {"unsplittable-not-refused"})
  ELSE IF ~IsSnakeName(e.name) THEN {}
  ELSE LET w == SnakeWords(e.name) IN
       (IF e.out.k # "ok" THEN {"rename-raised"}
        ELSE (IF e.out.s # Canon(e.style, w) THEN {"not-canonical"} ELSE {})
             \cup (IF e.again.k = "ok" /\ e.again.s = e.out.s THEN {} ELSE {"not-idempotent"})
             \cup (IF e.back.k = "ok" /\ e.back.s = e.name THEN {} ELSE {"snake-does-not-recover"})
             \* pairs of styles: the styled form taken to every other style is that style's canonical spelling
             \cup (IF "cross" \in DOMAIN e /\ \E i \in DOMAIN e.cross : e.cross[i].out.k # "ok" \/ e.cross[i].out.s # Canon(e.cross[i].style, w)
                   THEN {"pair-of-styles-not-canonical"} ELSE {}))

(* keys written by a class with rename options: into_data keys / dict(rename=) keys *)
ClsRenameFails(e) ==
  IF ~IsSnakeName(e.name) THEN {}
  ELSE IF e.out.k # "ok" THEN {"rename-raised"}
  ELSE IF e.out.s # Canon(e.style, SnakeWords(e.name)) THEN {"class-key-not-canonical"} ELSE {}

Fails(e) == CASE e.op = "rename" -> RenameFails(e)
              [] e.op = "clsrename" -> ClsRenameFails(e)
              [] OTHER -> {"unknown-event"}

(* the variables of the exhaustive universe are not used when validating a trace *)
TraceInit == l = 1 /\ bad = {} /\ ws = <<>> /\ style = "none" /\ ph = "trace" /\ styled = <<>>
TraceNext == /\ l <= Len(Events) /\ l' = l + 1
             /\ bad' = bad \cup {<<Events[l].id, c>> : c \in Fails(Events[l])}
             /\ UNCHANGED rvars
TraceSpec == TraceInit /\ [][TraceNext]_<<tvars, rvars>>
Report == (l = Len(Events) + 1) => PrintT(<<"BAD", bad>>)
TraceAccepted == TLCGet("stats").diameter - 1 = Len(Events)
=============================================================================
