SPECIFICATION TraceSpec
CONSTANTS
  StrFacts <- LoadedFacts
  ValIds = {1, 2}
  MaxOps = 1000
INVARIANT Report
POSTCONDITION TraceAccepted
CHECK_DEADLOCK FALSE
