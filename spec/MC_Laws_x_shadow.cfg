SPECIFICATION Spec
CONSTANTS
  StrFacts <- LoadedFacts
  MaxDepth = 0
  Focus = "unionq"
  OuterWrap = "few"
INVARIANT NoShadowGap
CHECK_DEADLOCK FALSE
