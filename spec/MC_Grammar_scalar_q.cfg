SPECIFICATION Spec
CONSTANTS
  StrFacts <- LoadedFacts
  MaxDepth = 1
  Focus = "scalar"
  OuterWrap = "all"
INVARIANT VerdictTotal
INVARIANT MembersNotRejected
INVARIANT ImgDefined
INVARIANT UnionLaw
CHECK_DEADLOCK FALSE
