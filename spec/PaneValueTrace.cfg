SPECIFICATION TraceSpec
CONSTANTS
  Vals = {0}
  NFields = 1
  FlagSets = {}
INVARIANT Report
POSTCONDITION TraceAccepted
CHECK_DEADLOCK FALSE
