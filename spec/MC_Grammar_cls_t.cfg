SPECIFICATION Spec
CONSTANTS
  StrFacts <- LoadedFacts
  MaxDepth = 1
  Focus = "cls"
  OuterWrap = "few"
INVARIANT VerdictTotal
INVARIANT ImgDefined
INVARIANT UnionLaw
CHECK_DEADLOCK FALSE
