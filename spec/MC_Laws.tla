------------------------------ MODULE MC_Laws ------------------------------
EXTENDS PaneLaws, PaneDispatch, Json, IOUtils
LoadedFacts == JsonDeserialize(IOEnv.PANE_FACTS)
(* the model of make_converter's dispatch picks, for every type of the grammar graph, the converter class that *)
(* implements the case the required semantics uses for that type                                               *)
DispatchMatchesKinds == RootMatches(ty)
=============================================================================
