------------------------------ MODULE MC_Laws ------------------------------
EXTENDS PaneLaws, Json, IOUtils
LoadedFacts == JsonDeserialize(IOEnv.PANE_FACTS)
=============================================================================
