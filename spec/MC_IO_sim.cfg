SPECIFICATION IOSpec
CONSTANTS
  ValIds = {1, 2}
  MaxOps = 6



CHECK_DEADLOCK FALSE
