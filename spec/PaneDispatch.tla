---------------------------- MODULE PaneDispatch ----------------------------
(***************************************************************************)
(* The implementation-shaped layer for the BUILD phase: which converter    *)
(* objects make_converter assembles for a type expression, as a tree       *)
(* [c |-> converter class, kids |-> << sub-converters >>], following the   *)
(* order of the branches of pane.convert.make_converter:                   *)
(*   Any; type variables (bound / constraints / free); dict and tuple type *)
(*   literals; Annotated (Tagged, then the conditions bundled into one     *)
(*   ConditionalConverter); Union (as typing flattens it); Literal; the    *)
(*   type's own _converter protocol (dataclasses, ValueOrList); the table  *)
(*   of scalar converters; patterns; enums; path-likes; tuples with fixed  *)
(*   members; homogeneous sequences and sets; mappings (Counter takes int  *)
(*   values); subclasses of the scalar types (DelegateConverter).          *)
(* This layer raises no alarm: the required semantics (PaneSem) is the     *)
(* only judge of behaviour.  A difference between Conv(T) and the tree     *)
(* found in the real converter object is reported as MODEL DRIFT in the    *)
(* evidence of C04 (the model of the implementation is out of date), and   *)
(* TLC checks on the grammar graph that the dispatch agrees with the       *)
(* semantics' own case analysis (DispatchMatchesKinds).                    *)
(***************************************************************************)
EXTENDS PaneErrors

CNode(c, kids) == [c |-> c, kids |-> kids]
CLeaf(c) == CNode(c, <<>>)
ScalarConv(k) ==      \* the converter of the type of an enum member value (a scalar, or a tuple: sequence of anything)
  IF k = "none" THEN CLeaf("NoneConverter")
  ELSE IF k = "seq" THEN CNode("SequenceConverter", <<CLeaf("AnyConverter")>>) ELSE CLeaf("ScalarConverter")

DedupKinds(s) == LET d == Dedup(s) IN [i \in DOMAIN d |-> d[i].x]
RECURSIVE Conv(_), StripAnn(_)
StripAnn(T) == IF T.k = "ann" THEN StripAnn(T.t) ELSE T
Conv(T) ==
  CASE T.k = "any"  -> CLeaf("AnyConverter")
    [] T.k = "none" -> CLeaf("NoneConverter")
    [] T.k \in {"bool", "int", "float", "complex", "str", "bytes", "bytearray", "decimal", "fraction", "path"} -> CLeaf("ScalarConverter")
    [] T.k \in {"date", "time", "datetime"} -> CLeaf("DatetimeConverter")
    [] T.k \in {"pattern", "patternb"} -> CNode("PatternConverter", <<CLeaf("ScalarConverter")>>)
    [] T.k = "lit"  -> CLeaf("LiteralConverter")
    [] T.k = "enum" ->
         LET kinds == DedupKinds([i \in DOMAIN T.vs |-> T.vs[i].k]) IN
         CNode("EnumConverter", << IF Len(kinds) = 1 THEN ScalarConv(kinds[1])
                                   ELSE CNode("UnionConverter", [i \in DOMAIN kinds |-> ScalarConv(kinds[i])]) >>)
    [] T.k \in SeqKinds -> CNode("SequenceConverter", <<Conv(T.e)>>)
    [] T.k = "tuple" -> CNode("TupleConverter", [i \in DOMAIN T.es |-> Conv(T.es[i])])
    [] T.k \in {"dict", "defaultdict", "ordereddict"} -> CNode("DictConverter", <<Conv(T.kt), Conv(T.vt)>>)
    [] T.k = "counter" -> CNode("DictConverter", <<Conv(T.kt), CLeaf("ScalarConverter")>>)
    [] T.k = "struct" -> CNode("StructConverter", [i \in DOMAIN T.fs |-> Conv(T.fs[i][2])])
    [] T.k = "union" -> LET A == FlatAlts(T) IN
                        IF Len(A) = 1 THEN Conv(A[1]) ELSE CNode("UnionConverter", [i \in DOMAIN A |-> Conv(A[i])])
    [] T.k = "ann" -> CNode("ConditionalConverter", <<Conv(StripAnn(T.t))>>)
    [] T.k = "sub" -> IF T.base.k \in {"list", "tuplevar", "set", "frozenset", "deque"} THEN Conv(T.base)
                      ELSE IF T.base.k \in {"dict"} THEN Conv(T.base)
                      ELSE CNode("DelegateConverter", <<Conv(T.base)>>)
    [] T.k = "tvar" -> (CASE T.var = "free" -> CLeaf("AnyConverter")
                          [] T.var = "bound" -> Conv(T.ts[1])
                          [] T.var = "constr" -> Conv([k |-> "union", alts |-> T.ts]))
    [] T.k = "tagged" -> CNode("TaggedUnionConverter", [i \in DOMAIN T.vars |-> Conv(T.vars[i])])
    [] T.k = "cls" -> CNode("PaneConverter", [j \in DOMAIN T.fs |-> Conv(T.fs[j].t)])
    [] T.k = "vol" -> CNode("ValueOrListConverter", <<Conv(T.e), CNode("SequenceConverter", <<Conv(T.e)>>)>>)
    [] OTHER -> CLeaf("unmodelled")

RECURSIVE Unmodelled(_)
Unmodelled(n) == n.c = "unmodelled" \/ \E i \in DOMAIN n.kids : Unmodelled(n.kids[i])

(* trace clause for a `dispatch` event (informational: never owned by a property) *)
DispatchFails(e) ==
  LET want == Conv(e.ty) IN
  IF Unmodelled(want) THEN {} ELSE IF e.tree = want THEN {} ELSE {"dispatch-differs-from-the-implementation-model"}

(* Design-level agreement with the semantics: the converter class at the root is the one that implements the  *)
(* case of Verdict / Img that PaneSem uses for the type (checked by TLC on every type of the grammar graph).  *)
KindOf(c) ==
  CASE c = "AnyConverter" -> {"any", "tvar"}
    [] c = "NoneConverter" -> {"none"}
    [] c = "ScalarConverter" -> {"bool", "int", "float", "complex", "str", "bytes", "bytearray", "decimal", "fraction", "path"}
    [] c = "DatetimeConverter" -> {"date", "time", "datetime"}
    [] c = "PatternConverter" -> {"pattern", "patternb"}
    [] c = "LiteralConverter" -> {"lit"}
    [] c = "EnumConverter" -> {"enum"}
    [] c = "SequenceConverter" -> SeqKinds \cup {"sub"}
    [] c = "TupleConverter" -> {"tuple"}
    [] c = "DictConverter" -> DictKinds \cup {"sub"}
    [] c = "StructConverter" -> {"struct"}
    [] c = "UnionConverter" -> {"union", "tvar"}
    [] c = "ConditionalConverter" -> {"ann"}
    [] c = "DelegateConverter" -> {"sub"}
    [] c = "TaggedUnionConverter" -> {"tagged"}
    [] c = "PaneConverter" -> {"cls"}
    [] c = "ValueOrListConverter" -> {"vol"}
    [] OTHER -> {}
RootMatches(T) ==
  LET n == Conv(T) IN
  n.c = "unmodelled" \/ T.k \in KindOf(n.c) \/ (T.k \in {"union", "tvar"} /\ Len(FlatAlts([k |-> "union", alts |-> IF T.k = "union" THEN T.alts ELSE T.ts])) = 1)
=============================================================================
