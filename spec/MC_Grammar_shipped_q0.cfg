SPECIFICATION Spec
CONSTANTS
  StrFacts <- LoadedFacts
  MaxDepth = 0
  Focus = "shipped"
  OuterWrap = "few"
INVARIANT VerdictTotal
INVARIANT ImgDefined
INVARIANT UnionLaw
INVARIANT MembersNotRejected
CHECK_DEADLOCK FALSE
