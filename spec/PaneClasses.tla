----------------------------- MODULE PaneClasses -----------------------------
(***************************************************************************)
(* Dataclass machinery beyond conversion of data (which PaneSem covers):   *)
(*   C14 construction paths: constructor, unchecked constructor, defaults, *)
(*       factory freshness, set-field record, __post_init__                 *)
(*   C16 value semantics: equality, order, hash rule table, frozen, copy    *)
(*   C17 class tables built from hierarchy PROGRAMS: effective fields,      *)
(*       keyword-only reordering, generic substitution, option inheritance  *)
(* Class descriptors are those of PaneSem ([k |-> "cls", ...]).             *)
(***************************************************************************)
EXTENDS PaneDispatch

-----------------------------------------------------------------------------
(* C14.  A construction is described by the class, the path and the supplied arguments       *)
(* sup = << <<field index, value>> .. >> (the first `posn` of them given positionally).      *)
SupIdx(sup) == {sup[i][1] : i \in DOMAIN sup}
SupVal(sup, j) == sup[CHOOSE i \in DOMAIN sup : sup[i][1] = j][2]

(* does the argument list bind to the signature: positional ones are the first positional    *)
(* init fields in order, nothing supplied twice, no non-init field, every required one given *)
BindsOK(C, sup, posn) ==
  LET pos == SelectSeq([j \in DOMAIN C.fs |-> j], LAMBDA j : C.fs[j].kw = "F" /\ IsInit(C.fs[j])) IN
  /\ posn <= Len(pos)
  /\ \A i \in 1..posn : sup[i][1] = pos[i]
  /\ \A i, j \in DOMAIN sup : i # j => sup[i][1] # sup[j][1]
  /\ \A i \in DOMAIN sup : IsInit(C.fs[sup[i][1]])
  /\ \A j \in DOMAIN C.fs : (IsInit(C.fs[j]) /\ ~HasDefault(C.fs[j])) => j \in SupIdx(sup)

CtorVerdict(C, sup) == KSeq([i \in DOMAIN sup |-> Verdict(C.fs[sup[i][1]].t, sup[i][2])])
CtorVals(C, sup, checked) ==
  [j \in DOMAIN C.fs |->
     IF j \in SupIdx(sup)
     THEN (IF checked THEN Img(C.fs[j].t, SupVal(sup, j)) ELSE SupVal(sup, j))
     ELSE Dec(C.fs[j].d.v)]
CtorInst(C, sup, checked) ==
  MkInst(C, [fv |-> CtorVals(C, sup, checked), set |-> {C.fs[j].n : j \in SupIdx(sup)}])

(* instance.dict(set_only=True), recorded as << <<name, value>> .. >>: exactly the explicitly set fields *)
(* of the instance x, each with the value the instance holds                                          *)
SetDictOK(sd, x, names) ==
  /\ {sd[i][1] : i \in DOMAIN sd} = names /\ Len(sd) = Cardinality(names)
  /\ \A i \in DOMAIN sd : \E j \in DOMAIN x.fs : x.fs[j][1] = sd[i][1] /\ x.fs[j][2] = Dec(sd[i][2])

(* names of the violated clauses of one recorded construction *)
ConstructFails(e, seen) ==
  LET C == e.cls  sup == e.sup  checked == e.path = "ctor" IN
  IF ~BindsOK(C, sup, e.posn)
  THEN (IF e.out.k = "exc" /\ e.out.c = "TypeError" THEN {} ELSE {"signature-binding"})
  ELSE LET r == IF checked THEN CtorVerdict(C, sup) ELSE "A" IN
       IF r = "D" THEN {}
       ELSE IF r = "R" THEN (IF e.out.k = "reject" THEN {} ELSE {"argument-not-converted-as-from-data"})
       ELSE LET vals == CtorVals(C, sup, checked)
                hookfails == HookRejects(C, vals, {C.fs[j].n : j \in SupIdx(sup)}) # "F" IN
            IF hookfails
            THEN (IF e.out.k = "exc" /\ e.out.c # "ConvertError" THEN {} ELSE {"hook-failure-not-raised"})
                 \cup (IF e.hook = 1 THEN {} ELSE {"post-init-run-count"})
            ELSE (IF e.out.k # "ok" THEN {"construction-refused"}
                  ELSE (IF Dec(e.out.x) = CtorInst(C, sup, checked) THEN {}
                        ELSE IF StripX(Dec(e.out.x), {}) = StripX(CtorInst(C, sup, checked), {}) THEN {"set-field-record"}
                        ELSE {"constructed-value"})
                       \cup (IF e.hook = 1 THEN {} ELSE {"post-init-run-count"})
                       \cup (IF e.isfac = <<>> THEN {} ELSE {"factory-stored-uncalled"})
                       \cup (IF \E i \in DOMAIN e.ids : e.ids[i] \in seen THEN {"default-shared-between-instances"} ELSE {})
                       \cup (IF e.path # "ctor" /\ e.verbatim = "F" THEN {"unchecked-not-verbatim"} ELSE {})
                       \cup (IF "setdict" \in DOMAIN e /\ Dec(e.out.x).k = "inst"
                                 /\ ~SetDictOK(e.setdict, Dec(e.out.x), {C.fs[j].n : j \in SupIdx(sup)})
                             THEN {"set-only-dict"} ELSE {}))

(* the same observations on the data paths: the value itself is judged by the from_data clause *)
CreatedFails(e, seen) ==
  IF e.out.k # "ok" THEN {}      \* no instance was created (the two passes may each have tried the hook)
  ELSE (IF e.hook = 1 THEN {} ELSE {"post-init-run-count"})
       \cup (IF e.isfac = <<>> THEN {} ELSE {"factory-stored-uncalled"})
       \cup (IF \E i \in DOMAIN e.ids : e.ids[i] \in seen THEN {"default-shared-between-instances"} ELSE {})
       \cup (IF "setdict" \in DOMAIN e /\ e.ty.k = "cls" /\ Verdict(e.ty, e.val) = "A" /\ Dec(e.out.x).k = "inst"
                 /\ ~SetDictOK(e.setdict, Dec(e.out.x), ClsImg(e.ty, e.val).set)
             THEN {"set-only-dict"} ELSE {})
=============================================================================
