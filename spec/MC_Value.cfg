SPECIFICATION VSpec
CONSTANTS
  Vals = {0, 1, 2}
  NFields = 2
  FlagSets <- MCFlagSets
INVARIANT EqEquivalence
INVARIANT Trichotomy
INVARIANT OrderTransitive
INVARIANT OrderAntisymmetric
INVARIANT EqualHashEqual
INVARIANT SubEqualHashEqual
CHECK_DEADLOCK FALSE
