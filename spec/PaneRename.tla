----------------------------- MODULE PaneRename -----------------------------
(***************************************************************************)
(* C20: field renaming.  Identifiers are sequences of character codes:     *)
(* lowercase letter i -> i (1..26), uppercase -> 100 + i, '_' -> 200,      *)
(* '-' -> 201.  A snake_case field name is a sequence of words (lowercase  *)
(* alphabetic, at least two letters) joined by single underscores.         *)
(*                                                                         *)
(* Canon(style, words) is the SPECIFICATION of the five styles.            *)
(* ImplRename(name, style) is a model of the shipped splitter + joiners    *)
(* (separator split, the isupper/islower/istitle shortcut, the capital-    *)
(* letter regex split, lower()/upper()/title() joiners).  TLC checks, for  *)
(* every identifier of the bounded universe, that the model of the code    *)
(* meets the specification and the algebraic laws of the statement; the    *)
(* real rename_field is bound by replaying every enumerated name and       *)
(* validating the recorded results against Canon (Trace part below).       *)
(***************************************************************************)
EXTENDS Integers, Sequences, FiniteSets, TLC

CONSTANTS Alphabet,    \* letter codes used, e.g. {1, 2}
          WordLens,    \* e.g. {2, 3}
          MaxWords     \* 1..MaxWords words per identifier

US == 200
DASH == 201
Styles == {"snake", "scream", "kebab", "camel", "pascal"}

IsUp(c) == c > 100 /\ c < 200
IsLow(c) == c < 100
Lower(c) == IF IsUp(c) THEN c - 100 ELSE c
Upper(c) == IF IsLow(c) THEN c + 100 ELSE c
LowerW(w) == [i \in DOMAIN w |-> Lower(w[i])]
UpperW(w) == [i \in DOMAIN w |-> Upper(w[i])]
CapW(w)   == [i \in DOMAIN w |-> IF i = 1 THEN Upper(w[i]) ELSE Lower(w[i])]

RECURSIVE JoinWith(_, _), Concat(_)
JoinWith(ws, sep) == IF ws = <<>> THEN <<>> ELSE IF Len(ws) = 1 THEN ws[1] ELSE ws[1] \o <<sep>> \o JoinWith(Tail(ws), sep)
Concat(ws) == IF ws = <<>> THEN <<>> ELSE ws[1] \o Concat(Tail(ws))

(* the specification of the styles *)
Canon(style, ws) ==
  CASE style = "snake"  -> JoinWith([i \in DOMAIN ws |-> LowerW(ws[i])], US)
    [] style = "scream" -> JoinWith([i \in DOMAIN ws |-> UpperW(ws[i])], US)
    [] style = "kebab"  -> JoinWith([i \in DOMAIN ws |-> LowerW(ws[i])], DASH)
    [] style = "camel"  -> Concat([i \in DOMAIN ws |-> IF i = 1 THEN LowerW(ws[i]) ELSE CapW(ws[i])])
    [] style = "pascal" -> Concat([i \in DOMAIN ws |-> CapW(ws[i])])

(* words of a snake_case name: split on single underscores *)
RECURSIVE SplitOn(_, _, _)
SplitOn(s, seps, cur) ==
  IF s = <<>> THEN <<cur>>
  ELSE IF Head(s) \in seps THEN <<cur>> \o SplitOn(Tail(s), seps, <<>>)
  ELSE SplitOn(Tail(s), seps, Append(cur, Head(s)))
SnakeWords(name) == SplitOn(name, {US}, <<>>)

-----------------------------------------------------------------------------
(* model of the code: pane/field.py _split_field_name and _CONVERT_FNS *)
AllUp(w)  == w # <<>> /\ \A i \in DOMAIN w : IsUp(w[i])
AllLow(w) == w # <<>> /\ \A i \in DOMAIN w : IsLow(w[i])
Title(w)  == w # <<>> /\ IsUp(w[1]) /\ \A i \in 2..Len(w) : IsLow(w[i])
(* re.split('([A-Z])', w): a new word starts at every capital; a non-empty prefix is a word *)
RECURSIVE CapSplit(_, _)
CapSplit(w, cur) ==
  IF w = <<>> THEN (IF cur = <<>> THEN <<>> ELSE <<cur>>)
  ELSE IF IsUp(Head(w)) THEN (IF cur = <<>> THEN <<>> ELSE <<cur>>) \o CapSplit(Tail(w), <<Head(w)>>)
  ELSE CapSplit(Tail(w), Append(cur, Head(w)))
SplitCase(w) == IF AllUp(w) \/ AllLow(w) \/ Title(w) THEN <<w>> ELSE CapSplit(w, <<>>)
RECURSIVE FlatMapSplit(_)
FlatMapSplit(parts) == IF parts = <<>> THEN <<>> ELSE SplitCase(parts[1]) \o FlatMapSplit(Tail(parts))
ImplParts(name) == SplitOn(name, {US, DASH}, <<>>)
ImplRefuses(name) == \E i \in DOMAIN ImplParts(name) : ImplParts(name)[i] = <<>>     \* ValueError
ImplSplit(name) == FlatMapSplit(ImplParts(name))
(* str.title() on an alphabetic word = capitalised word *)
ImplRename(name, style) == Canon(style, ImplSplit(name))

-----------------------------------------------------------------------------
(* the universe as a state graph *)
RECURSIVE WordsOfLen(_)
WordsOfLen(n) == IF n = 0 THEN {<<>>} ELSE {Append(w, c) : w \in WordsOfLen(n - 1), c \in Alphabet}
WordSet == UNION {WordsOfLen(n) : n \in WordLens}

VARIABLES ws, style, ph, styled
rvars == <<ws, style, ph, styled>>

RInit == /\ ph = "name" /\ style = "none" /\ styled = <<>>
         /\ ws \in {<<w>> : w \in WordSet}
AddWord == /\ ph = "name" /\ Len(ws) < MaxWords
           /\ \E w \in WordSet : ws' = Append(ws, w)
           /\ UNCHANGED <<style, ph, styled>>
ApplyStyle == /\ ph = "name"
              /\ \E s \in Styles : style' = s /\ styled' = ImplRename(Canon("snake", ws), s)
              /\ ph' = "styled" /\ UNCHANGED ws
RNext == AddWord \/ ApplyStyle
RSpec == RInit /\ [][RNext]_rvars

Name == Canon("snake", ws)

(* design level: the model of the code meets the specification on the property's domain *)
ImplCanonical == ph = "styled" => styled = Canon(style, ws)
ImplIdempotent == ph = "styled" => ImplRename(styled, style) = styled
ImplBackToSnake == ph = "styled" => ImplRename(styled, "snake") = Name
ImplNeverRefusesValid == ph = "styled" => ~ImplRefuses(Name) /\ ~ImplRefuses(styled)
(* specification level: distinct names stay distinct (Canon is injective in the words, per style) *)
SpecSplitsBack == ph = "name" => SnakeWords(Name) = ws
(* a left inverse of Canon(style, .) exists on the universe, hence distinct names have distinct renamings *)
SpecInjective ==
  ph = "styled" => LET back == ImplSplit(Canon(style, ws)) IN [i \in DOMAIN back |-> LowerW(back[i])] = ws
=============================================================================
