------------------------------ MODULE MC_Value ------------------------------
EXTENDS PaneValue
Fl(c, h, r) == [cmp |-> c, hash |-> h, repr |-> r]
MCFlagSets == { <<Fl("T", "T", "T"), Fl("T", "T", "T")>>,
                <<Fl("T", "T", "T"), Fl("F", "F", "T")>>,      \* second field not compared
                <<Fl("T", "T", "F"), Fl("T", "F", "T")>>,      \* compared but not hashed; first not in repr
                <<Fl("F", "F", "T"), Fl("T", "T", "F")>> }
=============================================================================
