----------------------------- MODULE PaneIOTrace -----------------------------
(* Trace validation for C19.                                                                   *)
(*  iostep  - one step of a behaviour of PaneIO executed on real files / streams: the model    *)
(*            action is taken with the logged parameters and the observations are compared     *)
(*            with what the model state says (documents read back, handles, caller streams).   *)
(*  ioround - one write / read-back of a typed value with a formatting option set and a sink.  *)
EXTENDS PaneIO, PaneSem, Json, IOUtils

LoadedFacts == JsonDeserialize(IOEnv.PANE_FACTS)
Events == ndJsonDeserialize(IOEnv.PANE_TRACE)
VARIABLES l, bad, vals      \* vals: value id -> abstract typed value (announced by an "iovals" event)
tvars == <<l, bad, vals>>

(* Python's == on mappings does not look at the order of the entries (sort_keys may change it) *)
RECURSIVE Unord(_)
Unord(x) ==
  CASE x.k = "seq"  -> [x EXCEPT !.xs = [i \in DOMAIN x.xs |-> Unord(x.xs[i])]]
    [] x.k = "map"  -> [k |-> "map", f |-> x.f, pset |-> {<<Unord(x.ps[i][1]), Unord(x.ps[i][2])>> : i \in DOMAIN x.ps}]
    [] x.k = "set"  -> [x EXCEPT !.es = {Unord(y) : y \in x.es}]
    [] x.k = "sub"  -> [x EXCEPT !.x = Unord(x.x)]
    [] x.k = "inst" -> [x EXCEPT !.fs = [i \in DOMAIN x.fs |-> <<x.fs[i][1], Unord(x.fs[i][2])>>]]
    [] OTHER -> x
SameValue(a, b, ES) == Unord(StripX(a, ES)) = Unord(StripX(b, ES))

HandleFails(e) ==
  (IF \A i \in DOMAIN e.libs : e.libs[i][2] = "T" THEN {} ELSE {"library-handle-left-open"})
  \cup (IF \A i \in DOMAIN e.libs : e.libs[i][1] = "utf-8" THEN {} ELSE {"path-not-opened-as-utf-8"})
  \cup (IF e.caller_closed = "F" THEN {} ELSE {"caller-stream-closed"})
  \cup (IF e.nlibs = e.want_nlibs THEN {} ELSE {"unexpected-open-count"})

StepFails(e) ==
  HandleFails(e) \cup
  (CASE e.a = "Write" -> IF e.raised = "" THEN {} ELSE {"write-raised"}
     [] e.a = "Read" -> IF e.raised # "" THEN {"read-raised"}
                        ELSE IF Len(docs[e.s]) = 1 /\ Len(e.got) = 1 /\ SameValue(Dec(e.got[1]), Dec(vals[docs[e.s][1]]), {}) THEN {}
                        ELSE {"read-back-differs"}
     [] e.a = "ReadAll" -> IF e.raised # "" THEN {"read-raised"}
                           ELSE IF Len(e.got) # Len(docs[e.s]) THEN {"not-one-value-per-document"}
                           ELSE IF \A i \in DOMAIN e.got : SameValue(Dec(e.got[i]), Dec(vals[docs[e.s][i]]), {}) THEN {}
                           ELSE {"read-back-differs"})

(* JSON / YAML representable serialised data *)
RECURSIVE JsonOK(_), YamlOK(_)
JsonOK(d) == CASE d.k \in {"none", "bool", "int", "str"} -> TRUE
               [] d.k = "float" -> TRUE
               [] d.k = "seq" -> \A i \in DOMAIN d.xs : JsonOK(d.xs[i])
               [] d.k = "map" -> \A i \in DOMAIN d.ps : d.ps[i][1].k = "str" /\ JsonOK(d.ps[i][2])
               [] OTHER -> FALSE
YamlOK(d) == CASE d.k \in {"none", "bool", "int", "str", "float"} -> TRUE
               [] d.k = "bytes" -> d.mut = "F"
               [] d.k = "seq" -> \A i \in DOMAIN d.xs : YamlOK(d.xs[i])
               [] d.k = "map" -> \A i \in DOMAIN d.ps : d.ps[i][1].k \in {"str", "int", "bool", "none"} /\ YamlOK(d.ps[i][2])
               [] OTHER -> FALSE

RoundFails(e) ==
  IF Verdict(e.ty, e.val) # "A" \/ e.have = "F" THEN {}
  ELSE LET x == Dec(e.x) IN
       IF x # Img(e.ty, e.val) \/ ~OutEnabled(e.ty) \/ ~StdVal(x) \/ e.d.k # "ok" THEN {}
       ELSE IF ~(IF e.fmt = "json" THEN JsonOK(e.d.x) ELSE YamlOK(e.d.x)) THEN {}       \* not representable in the format
       ELSE HandleFails(e)
            \cup (IF e.wrote # "ok" THEN {"write-raised"}
                  ELSE IF e.got.k # "ok" THEN {"read-back-failed"}
                  ELSE IF ~SameValue(Dec(e.got.x), x, ExSet(e.ty)) THEN {"read-back-differs"} ELSE {})
            \* the same file read with from_yaml_all is the list of its one document
            \cup (IF "gall" \in DOMAIN e /\ e.wrote = "ok" /\ e.got.k = "ok" /\ e.gall # [k |-> "ok", xs |-> <<e.got.x>>]
                  THEN {"read-all-differs"} ELSE {})

TraceInit == l = 1 /\ bad = {} /\ vals = <<>> /\ IOInit
TraceNext ==
  /\ l <= Len(Events) /\ l' = l + 1
  /\ LET e == Events[l] IN
     CASE e.op = "iovals"  -> vals' = e.vals /\ bad' = bad /\ UNCHANGED iovars
       [] e.op = "ioreset" -> UNCHANGED vals /\ bad' = bad /\ docs' = [s \in Stores |-> <<>>] /\ fmtOf' = [s \in Stores |-> "none"]
                              /\ callerOpen' = [s \in CallerStores |-> TRUE] /\ libHandles' = <<>> /\ last' = [k |-> "none"] /\ nops' = 0
       [] e.op = "iostep"  -> /\ UNCHANGED vals
                              /\ bad' = bad \cup {<<e.id, c>> : c \in StepFails(e)}
                              /\ (CASE e.a = "Write" -> Write(e.s, e.f, e.v)
                                    [] e.a = "Read" -> Read(e.s)
                                    [] e.a = "ReadAll" -> ReadAll(e.s))
       [] e.op = "ioround" -> UNCHANGED <<vals, iovars>> /\ bad' = bad \cup {<<e.id, c>> : c \in RoundFails(e)}
TraceSpec == TraceInit /\ [][TraceNext]_<<tvars, iovars>>
Report == (l = Len(Events) + 1) => PrintT(<<"BAD", bad>>)
TraceAccepted == TLCGet("stats").diameter - 1 = Len(Events)
=============================================================================
