------------------------------ MODULE MC_Program ------------------------------
(* The space of small class-hierarchy programs as a state graph: one action per class         *)
(* definition appended (levels 1..3).  Every state is a program; laws of the class rules are  *)
(* checked on each, and each is defined for real and observed by the harness.                 *)
EXTENDS PaneProgram, TLC, Json, IOUtils

CONSTANTS MaxLevel, Rich        \* Rich = TRUE: all choices at level 3 as well
LoadedFacts == JsonDeserialize(IOEnv.PANE_FACTS)

VARIABLES prog
TInt == [k |-> "int"]  TStr == [k |-> "str"]  TFloat == [k |-> "float"]
TListOf(t) == [k |-> "list", e |-> t]
TOptOf(t) == [k |-> "union", alts |-> <<t, [k |-> "none"]>>]
NoDef == [k |-> "nodef", v |-> MkNone]
Def(x) == [k |-> "val", v |-> x]
F(n, t, d, kw) == [n |-> n, t |-> t, d |-> d, kw |-> kw]
AllUnset == [kw_only |-> Unset, extra |-> Unset, frozen |-> Unset, inf |-> <<Unset>>, outf |-> Unset]
OptChoices1 == { AllUnset, [AllUnset EXCEPT !.kw_only = "T"], [AllUnset EXCEPT !.inf = <<"struct", "tuple">>],
                 [AllUnset EXCEPT !.extra = "T"], [AllUnset EXCEPT !.frozen = "F"],
                 [AllUnset EXCEPT !.inf = <<"struct", "tuple">>, !.outf = "tuple"] }
OptChoices2 == { AllUnset, [AllUnset EXCEPT !.kw_only = "T"], [AllUnset EXCEPT !.extra = "F"], [AllUnset EXCEPT !.inf = <<"struct">>],
                 [AllUnset EXCEPT !.kw_only = "F"], [AllUnset EXCEPT !.frozen = "T"] }

Body1 == { [gen |-> <<>>, own |-> <<F("s_x", TInt, NoDef, "F"), F("s_y", TFloat, Def(MkFloat(<<3, 2>>)), "F")>>],
           [gen |-> <<>>, own |-> <<F("s_x", TInt, Def(MkInt(1)), "F"), F("s_y", TStr, Def(MkStr("s_a")), "T")>>],
           [gen |-> <<"T">>, own |-> <<F("s_x", TV("T"), NoDef, "F"), F("s_y", TListOf(TV("T")), NoDef, "F")>>],
           [gen |-> <<"T">>, own |-> <<F("s_x", TV("T"), NoDef, "F"), F("s_y", TOptOf(TV("T")), Def(MkNone), "F")>>],
           [gen |-> <<"T">>, own |-> <<F("s_x", [k |-> "union", alts |-> <<TInt, TV("T")>>], NoDef, "F"), F("s_y", TStr, Def(MkStr("s_a")), "F")>>],
           [gen |-> <<"T">>, own |-> <<F("s_x", [k |-> "ann", t |-> TV("T"), cs |-> <<[k |-> "pos"]>>], NoDef, "F"),
                                        F("s_y", TOptOf([k |-> "ann", t |-> TV("T"), cs |-> <<[k |-> "pos"]>>]), Def(MkNone), "F")>>],
           [gen |-> <<"T", "U">>, own |-> <<F("s_x", TV("T"), NoDef, "F"), F("s_y", TV("U"), NoDef, "F")>>] }
Level1 == { [name |-> "A", base |-> 0, bargs |-> <<>>, gen |-> b.gen, own |-> b.own, marker |-> m, opts |-> o] :
            b \in Body1, m \in {1, 2}, o \in OptChoices1 }

(* subscriptions of a base with the given parameters, with the variables the subclass must/may declare *)
Bargs(ps) ==
  IF Len(ps) = 0 THEN { [bargs |-> <<>>, gens |-> {<<>>}] }
  ELSE IF Len(ps) = 1
  THEN { [bargs |-> <<TInt>>, gens |-> {<<>>}], [bargs |-> <<TV(ps[1])>>, gens |-> {<<>>, <<ps[1]>>}],
         [bargs |-> <<TV("V")>>, gens |-> {<<"V">>}], [bargs |-> <<TListOf(TV("V"))>>, gens |-> {<<"V">>}],
         [bargs |-> <<[k |-> "union", alts |-> <<TFloat, TInt>>]>>, gens |-> {<<>>}] }
  ELSE { [bargs |-> <<TInt, TStr>>, gens |-> {<<>>}], [bargs |-> <<TInt, TV("V")>>, gens |-> {<<>>, <<"V">>}],
         [bargs |-> <<TV(ps[2]), TV(ps[1])>>, gens |-> {<<>>}], [bargs |-> <<TV("V"), TV("V")>>, gens |-> {<<"V">>}] }
Own2 == { <<>>, <<F("s_x", TFloat, NoDef, "F")>>, <<F("s_x", TFloat, Def(MkFloat(<<3, 2>>)), "F")>>,
          <<F("s_z", TStr, NoDef, "F")>>, <<F("s_z", TStr, Def(MkStr("s_a")), "F")>>, <<F("s_z", TInt, Def(MkInt(0)), "T")>>,
          <<F("s_y", TInt, NoDef, "F"), F("s_z", TV("V"), NoDef, "F")>> }
Own3 == { <<>>, <<F("s_w", TInt, Def(MkInt(0)), "F")>>, <<F("s_x", TStr, NoDef, "F")>> }
Extend(name, b, owns, optc) ==
  UNION { UNION { { [name |-> name, base |-> b, bargs |-> ba.bargs, gen |-> g, own |-> o, marker |-> Len(o), opts |-> op] :
                    o \in {w \in owns : \A j \in DOMAIN w : \A v \in Range(VarsOf(w[j].t)) :
                                          v \in Range(MergeVars(VarsOfSeq(ba.bargs), g))}, op \in optc }
                  : g \in ba.gens } : ba \in Bargs(Params(prog, b)) }

(* two pane bases: class D(A, M) and class D(M, A) over a non-generic A and a small mixin M (terminal programs) *)
MixinOwn == { <<F("s_x", TFloat, Def(MkFloat(<<3, 2>>)), "T"), F("s_v", TStr, Def(MkStr("s_a")), "F")>>,
              <<F("s_w", TInt, Def(MkInt(0)), "F")>>, <<F("s_v", TStr, NoDef, "F")>> }
MixinOpts == { AllUnset, [AllUnset EXCEPT !.extra = "T"], [AllUnset EXCEPT !.kw_only = "T"] }
MixProgs ==
  { << a,
       [name |-> "M", base |-> 0, bargs |-> <<>>, gen |-> <<>>, own |-> mo, marker |-> Len(mo), opts |-> mp],
       [name |-> "D", base |-> ord[1], mix |-> ord[2], bargs |-> <<>>, gen |-> <<>>, own |-> down, marker |-> Len(down), opts |-> AllUnset] >> :
      a \in {d \in Level1 : d.gen = <<>>}, mo \in MixinOwn, mp \in MixinOpts, ord \in {<<1, 2>>, <<2, 1>>},
      down \in {<<>>, <<F("s_z", TInt, Def(MkInt(7)), "F")>>} }

(* a diamond over a shared pane ancestor: A ; B(A) ; C(A) ; D(B, C) or D(C, B), all non-generic (terminal programs). *)
(* The linearisation of D(B, C) is D, B, C, A: a name declared by C and not by B takes C's spec although B's      *)
(* inherited copy of A's spec lies before it; D's options come from its first base.                               *)
DiaA == { d \in Level1 : d.gen = <<>> /\ d.opts \in {AllUnset, [AllUnset EXCEPT !.inf = <<"struct", "tuple">>, !.outf = "tuple"]} }
DiaBOwn == { <<>>, <<F("s_x", TFloat, Def(MkFloat(<<3, 2>>)), "F")>>, <<F("s_z", TStr, Def(MkStr("s_a")), "F")>>,
             <<F("s_y", TInt, Def(MkInt(0)), "T")>> }
DiaCOwn == { <<F("s_x", TStr, Def(MkStr("s_a")), "F")>>, <<F("s_w", TInt, Def(MkInt(0)), "F")>>,
             <<F("s_y", TFloat, NoDef, "F")>>, <<F("s_z", TInt, Def(MkInt(7)), "F"), F("s_x", TInt, Def(MkInt(1)), "F")>> }
DiaBOpts == IF Rich THEN { AllUnset, [AllUnset EXCEPT !.kw_only = "T"], [AllUnset EXCEPT !.frozen = "F"] } ELSE { AllUnset, [AllUnset EXCEPT !.kw_only = "T"] }
DiaCOpts == IF Rich THEN { AllUnset, [AllUnset EXCEPT !.extra = "T"], [AllUnset EXCEPT !.inf = <<"struct">>] } ELSE { AllUnset, [AllUnset EXCEPT !.extra = "T"] }
DiaProgs ==
  { << a,
       [name |-> "B", base |-> 1, bargs |-> <<>>, gen |-> <<>>, own |-> bo, marker |-> Len(bo), opts |-> bp],
       [name |-> "C", base |-> 1, bargs |-> <<>>, gen |-> <<>>, own |-> co, marker |-> Len(co), opts |-> cp],
       [name |-> "D", base |-> ord[1], mix |-> ord[2], bargs |-> <<>>, gen |-> <<>>, own |-> down, marker |-> Len(down), opts |-> AllUnset] >> :
      a \in DiaA, bo \in DiaBOwn, bp \in DiaBOpts, co \in DiaCOwn, cp \in DiaCOpts, ord \in {<<2, 3>>, <<3, 2>>},
      down \in {<<>>, <<F("s_z", TInt, Def(MkInt(7)), "F")>>} }

Init == prog \in {<<d>> : d \in Level1} \cup MixProgs \cup DiaProgs
Next == /\ Len(prog) < MaxLevel /\ ProgOK(prog, Len(prog)) /\ (IF Len(prog) < 2 THEN TRUE ELSE prog[2].name # "M" /\ prog[Len(prog)].name # "D")
        /\ \E d \in (IF Len(prog) = 1 THEN Extend("B", 1, Own2, OptChoices2)
                     ELSE Extend("C", 2, Own3, IF Rich THEN OptChoices2 ELSE {AllUnset})) :
              prog' = Append(prog, d)
Spec == Init /\ [][Next]_prog

Last == Len(prog)
(* laws of the class rules, on every program whose definition succeeds *)
OKProg == ProgOK(prog, Last)
KwBehind == OKProg => LET fs == EffSpecs(prog, Last, <<>>) IN
                      \A a, b \in DOMAIN fs : (fs[a].kw = "T" /\ fs[b].kw = "F") => a > b
NamesUnique == OKProg => LET fs == EffSpecs(prog, Last, <<>>) IN \A a, b \in DOMAIN fs : a # b => fs[a].n # fs[b].n
(* subscripting a class with its own parameters changes nothing *)
SelfSubscription == OKProg => LET ps == Params(prog, Last) IN
                      EffSpecs(prog, Last, [j \in DOMAIN ps |-> TV(ps[j])]) = EffSpecs(prog, Last, <<>>)
(* every inherited field is still there, at its original place among the inherited ones *)
InheritedKept == (OKProg /\ prog[Last].base # 0 /\ Mix(prog[Last]) = 0) =>
   LET b == RawSpecs(prog, prog[Last].base)  c == RawSpecs(prog, Last) IN
   Len(c) >= Len(b) /\ \A j \in DOMAIN b : c[j].n = b[j].n
(* in a diamond the spec of every name is the one of the first class of the linearisation that declares it *)
DiamondByMro == (OKProg /\ Mix(prog[Last]) # 0) =>
   LET m == Mro(prog, Last)  raw == RawSpecs(prog, Last) IN
   \A j \in DOMAIN raw :
      LET decl == SelectSeq(m, LAMBDA c : \E k \in DOMAIN prog[c].own : prog[c].own[k].n = raw[j].n)
          c == decl[1]  own == prog[c].own IN
      \E k \in DOMAIN own : own[k].n = raw[j].n /\ own[k].t = raw[j].t
(* a linearisation lists every class once, the class itself first, every class before its bases *)
MroSound == LET m == Mro(prog, Last) IN
   /\ m[1] = Last /\ \A a, b \in DOMAIN m : a # b => m[a] # m[b]
   /\ \A a, b \in DOMAIN m : (prog[m[a]].base = m[b] \/ Mix(prog[m[a]]) = m[b]) => a < b
ParamsOnce == LET ps == Params(prog, Last) IN \A a, b \in DOMAIN ps : a # b => ps[a] # ps[b]
=============================================================================
