SPECIFICATION TraceSpec
CONSTANTS
  Alphabet = {1}
  WordLens = {2}
  MaxWords = 1
INVARIANT Report
POSTCONDITION TraceAccepted
CHECK_DEADLOCK FALSE
