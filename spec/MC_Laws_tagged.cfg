SPECIFICATION Spec
CONSTANTS
  StrFacts <- LoadedFacts
  MaxDepth = 0
  Focus = "tagged"
  OuterWrap = "few"
INVARIANT VerdictTotal
INVARIANT ImgDefined
INVARIANT UnionLaw
INVARIANT SerConsistent
INVARIANT RoundTripLaw
INVARIANT DispatchMatchesKinds
CHECK_DEADLOCK FALSE
