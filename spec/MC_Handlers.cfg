SPECIFICATION HSpec
INVARIANT WinnerAnswers
INVARIANT Monotone
CHECK_DEADLOCK FALSE
